"""Extra phases of some checks (registry concurrency for C17, concurrent owners for C16)."""
import hashlib
import json
import os
import re
import shutil

import vlib
from vlib import Infra, log

RACE_RE = re.compile(r"WARNING: DATA RACE")
FATAL_RE = re.compile(r"fatal error: (concurrent map (read and map write|writes|iteration and map write)"
                      r"|sync: (unlock of unlocked mutex|Unlock of unlocked RWMutex|RUnlock of unlocked RWMutex|inconsistent mutex state)"
                      r"|all goroutines are asleep - deadlock!)")


def styles_phase(ctx):
    """C19 under concurrency: bursts of registrations while other goroutines list the styles; after each burst the
    style listing must show every registered name (validated by RegistryTrace.tla, facet reg.styles)."""
    wd, tier, seed = ctx["wd"], ctx["tier"], ctx["seed"]
    d = os.path.join(wd, "registry")
    os.makedirs(d)
    vdr = vlib.build_driver(d, race=True)
    inp = os.path.join(d, "input.ndjson")
    # (the registry only grows, and every listing line holds all of it: a process gets at most 400 bursts)
    nproc = 1 if tier == "quick" else 10
    rounds = 400 * nproc
    recs, lib, fatal = [], [], ""
    for k in range(nproc):
        with open(inp, "w") as f:
            for i in range(4):
                f.write(json.dumps({"burst": {"rounds": 100, "names": 6, "seed": seed * 1000 + k * 10 + i}}) + "\n")
        r1, nl, st, l1, f1 = _registry_run(ctx, vdr, d, inp, "a%d" % k, need=("reg.register", "init", "styles"))
        recs += r1
        lib += l1
        fatal = fatal or f1
        ctx["nops"] += st.get("ops", 0)
        ctx["nlines"] += nl
        ctx["nscen"] += vlib.LAST_COMPARED.get("styles", 0)     # bursts actually run and judged
        ctx["hashes"].add("bursts:" + st.get("content", ""))
    log("style listing under concurrency: %d bursts of 6 registrations with two goroutines listing the styles" % rounds)
    viol = []
    if fatal or lib:
        text = fatal or ("WARNING: DATA RACE" + "\nWARNING: DATA RACE".join(lib))
        log("MISMATCH the race detector / Go runtime reported a data race inside the library while styles were listed; first:\n%s" % text[:1500])
        viol.append(_phase_artifact(ctx, "C19-race.json", "registry", text))
    if recs:
        log("MISMATCH style listing facets=%s rounds=%d first=%s" % (sorted({r["facet"] for r in recs}), len(recs), json.dumps(recs[0])[:800]))
        viol.append(_phase_artifact(ctx, "C19-styles.json", "registry", "", {"mismatches": recs[:10]}))
    shutil.rmtree(d, ignore_errors=True)
    return viol


def _library_race(text):
    """Splits the race detector's output into reports; returns those in which at least one of the two conflicting
    accesses was made by the library: in that access's stack, the first frame that is either the library's or the
    driver's is the library's (so the standard library working on the library's behalf counts, and two accesses
    made by the driver's own code -- a bug of the driver -- do not)."""
    reports = text.split("WARNING: DATA RACE")[1:]
    lib = []
    for r in reports:
        body = r.split("==================")[0]
        stacks = re.split(r"\n(?=(?:Read|Write|Previous read|Previous write|Atomic read|Atomic write|Previous atomic read|Previous atomic write) (?:at|of) )", "\n" + body)
        by_lib = False
        for st in stacks:
            if not re.match(r"\s*(Read|Write|Previous|Atomic)", st):
                continue
            st = st.split("\nGoroutine ")[0]
            for ln in st.split("\n")[1:]:
                f = ln.strip()
                if f.startswith("go.pennock.tech/tabular"):
                    by_lib = True
                    break
                if f.startswith("main."):
                    break
        if by_lib:
            lib.append(body)
    return reports, lib


def _library_fatal(out):
    """The Go runtime aborted the process for unsynchronised map access, and the aborting goroutine (the first
    one of the dump) was inside the library."""
    m = FATAL_RE.search(out)
    if not m:
        return False
    first = out[m.end():].split("\n\ngoroutine ")
    head = first[0] + ("\n\ngoroutine " + first[1] if len(first) > 1 else "")
    return "go.pennock.tech/tabular" in head or "/repo/" in head


def _library_panic(out):
    """An unrecovered panic ended the driver, and it was raised inside the library (the first frame of the
    panicking goroutine that is either the library's or the driver's is the library's)."""
    i = out.find("\npanic: ")
    if i < 0:
        return False
    j = out.find("[running]:", i)
    if j < 0:
        return False
    for ln in out[j:].split("\n")[1:]:
        if ln.startswith("\t") or not ln.strip():
            if not ln.strip():
                break
            continue
        if ln.startswith("go.pennock.tech/tabular"):
            return True
        if ln.startswith("main."):
            return False
    return False


def _library_hang(out):
    """The watchdog's goroutine dump shows a goroutine that is inside the library (waiting for a lock that is never
    released, or spinning): on its stack the first frame that is the library's or the driver's is the library's."""
    dump = out[out.index("vdrive: HANG"):]
    for g in dump.split("\n\ngoroutine ")[1:]:
        for ln in g.split("created by")[0].split("\n")[1:]:
            if ln.startswith("\t"):
                continue
            if ln.startswith("go.pennock.tech/tabular"):
                return True
            if ln.startswith("main."):
                break
    return False


def _phase_artifact(ctx, name, mode, text, extra=None):
    """Replay artifact of a phase violation: JSON saying how to run that phase again (bin/check --replay)."""
    rdir = os.path.join(ctx["wd"], "replay")
    os.makedirs(rdir, exist_ok=True)
    rp = os.path.join(rdir, name)
    d = {"property": ctx["prop"], "mode": mode, "seed": ctx["seed"], "tier": ctx["tier"], "report": text[-40000:]}
    d.update(extra or {})
    json.dump(d, open(rp, "w"), indent=1)
    return rp


REG_OWN = {"C17": ("reg.named", "reg.list", "reg.register", "reg.early"), "C19": ("reg.styles", "reg.early")}


def _registry_run(ctx, vdr, d, inp, tag, need=("reg.named", "reg.list", "reg.register", "init", "styles")):
    """-> (mismatch records, lines, driver stats, library race reports, fatal text)"""
    tp = os.path.join(d, "regtrace-%s.ndjson" % tag)
    env = vlib.goenv()
    env["GORACE"] = "halt_on_error=0 exitcode=0"
    early = ["utf8-light", "none", "ascii-simple", "utf8-heavy"][ctx["seed"] % 4]
    p = vlib.run([vdr, "-mode", "registry", "-early", early, "-in", inp, "-out", tp], env=env, timeout=1800, check=False)
    out = p.stdout or ""
    reports, lib = _library_race(out)
    if p.returncode != 0:
        if lib:
            # the race detector had already reported a race inside the library when the process died
            return [], 0, {}, lib, ""
        if _library_fatal(out):
            # the Go runtime itself aborted the process: unsynchronised map access inside the library
            return [], 0, {}, lib, out
        if _library_panic(out):
            # a registry call panicked under concurrency (e.g. an index computed from a map that grew meanwhile)
            return [], 0, {}, lib, out[out.find("\npanic: ") + 1:]
        if p.returncode == 3 and "vdrive: HANG" in out and _library_hang(out):
            # registry calls that never return: a goroutine is blocked inside the library
            return [], 0, {}, lib, out[out.index("vdrive: HANG"):]
        raise Infra("registry driver failed (%d): %s" % (p.returncode, out[-3000:]))
    if reports and not lib:
        raise Infra("the race detector reported a race without a library frame (driver bug?):\n" + reports[0][:3000])
    m = re.search(r'vdrive: (\{.*\})', out)
    if not m:
        raise Infra("the registry driver printed no statistics")
    st = json.loads(m.group(1))
    recs, nl = vlib.validate(tp, d, module="RegistryTrace", nshards=1)
    cmp_ = dict(vlib.LAST_COMPARED)
    for f in need:
        if not cmp_.get(f):
            raise Infra("the registry trace holds no %s comparison" % f)
    seen = sum(cmp_.get(f, 0) for f in ("reg.named", "reg.list", "reg.register"))
    if seen != st.get("ops"):
        raise Infra("the driver performed %s registry operations, the validator saw %d" % (st.get("ops"), seen))
    recs = [r for r in recs if r["facet"] in REG_OWN[ctx["prop"]]]
    st["content"] = hashlib.sha1(open(tp, "rb").read()).hexdigest()
    return recs, nl, st, lib, ""


def registry_proofs(ctx, d):
    """Unbounded arguments for the locking discipline (thorough tier): a TLAPS proof of mutual exclusion for any
    number of processes (RegistryProof.tla) and the inductive invariant discharged by Apalache (RegistryInd.tla).
    A failure here is a failure of the specification work (exit 2), never a verdict on the code."""
    pd = os.path.join(d, "proofs")
    vlib.copy_spec(pd)
    info = {}
    p = vlib.run(["tlapm", "--threads", "8", "RegistryProof.tla"], cwd=pd, timeout=600, check=False)
    m = re.search(r"All (\d+) obligations? proved", p.stdout or "")
    if not m:
        raise Infra("TLAPS did not prove RegistryProof.tla:\n" + (p.stdout or "")[-2000:])
    info["tlaps_obligations_proved"] = int(m.group(1))
    for init, length in (("Init", 0), ("IndInit", 1)):
        p = vlib.run(["apalache-mc", "check", "--cinit=CInit", "--init=" + init, "--inv=IndInv", "--length=%d" % length,
                      "RegistryInd.tla"], cwd=pd, timeout=600, check=False)
        if "EXITCODE: OK" not in (p.stdout or ""):
            raise Infra("Apalache did not establish the inductive invariant (%s):\n%s" % (init, (p.stdout or "")[-2000:]))
    info["apalache_inductive_invariant"] = "Init => IndInv and IndInv /\\ Next => IndInv' established for 4 processes"
    shutil.rmtree(pd, ignore_errors=True)
    return info


def _validate_model_logs(mlog, d):
    """RegistryTrace over the model's behaviours, split at 'init' lines into files of <= 40 MB, NCPU at a time."""
    import concurrent.futures
    parts = []
    cur = None
    size = 0
    with open(mlog) as f:
        for line in f:
            if cur is None or (size > 40000000 and '"ev": "init"' in line):
                if cur:
                    cur.close()
                parts.append(os.path.join(d, "mlog%d.ndjson" % len(parts)))
                cur = open(parts[-1], "w")
                size = 0
            cur.write(line)
            size += len(line)
    if cur:
        cur.close()
    recs, nl, cmp_ = [], 0, {}

    def one(ip):
        i, p = ip
        sd = os.path.join(d, "mv%d" % i)
        os.makedirs(sd)
        r = vlib.validate_shard((sd, 0, p, "RegistryTrace", 1800))
        shutil.rmtree(sd, ignore_errors=True)
        return r
    with concurrent.futures.ThreadPoolExecutor(max_workers=vlib.NCPU) as ex:
        for r in ex.map(one, list(enumerate(parts))):
            if "error" in r:
                raise Infra(r["error"])
            recs += r["recs"]
            nl += r["lines"]
            for k, v in r.get("compared", {}).items():
                cmp_[k] = cmp_.get(k, 0) + v
    for p in parts:
        os.remove(p)
    vlib.LAST_COMPARED.clear()
    vlib.LAST_COMPARED.update(cmp_)
    return recs, nl


def registry_phase(ctx):
    """C17 concurrency: forced schedules from MCRegistry (run sequentially, in the model's linearization order),
    free-running stress with a quiescent read-back; everything under the race detector; the call/return log is
    validated by RegistryTrace.tla."""
    wd, tier, seed = ctx["wd"], ctx["tier"], ctx["seed"]
    d = os.path.join(wd, "registry")
    os.makedirs(d)
    vdr = vlib.build_driver(d, race=True)
    inp = os.path.join(d, "input.ndjson")
    nforced = 0
    seen = set()
    mlog = os.path.join(d, "modellog.ndjson")
    nmodel = 0
    with open(inp, "w") as f, open(mlog, "w") as ml:
        # With call and return as steps that read the clock the six-operation program sets have four to six million
        # states each (thorough tier); the quick tier checks the clocked model on five-operation sets and uses the
        # six-operation sets without the clock (a few thousand states) to enumerate their linearization orders.
        runs = [("s1", True), ("s2", True), ("s3", True)] + [(ps, tier != "quick") for ps in ("rw", "ww", "mix")]
        for ps, stamp in runs:
            md = os.path.join(d, "mc-" + ps)
            vlib.copy_spec(md)
            genf = os.path.join(md, "gen.ndjson")
            logf = os.path.join(md, "log.ndjson")
            open(logf, "w").close()
            with open(os.path.join(md, "MCRegistry.cfg"), "w") as c:
                c.write("SPECIFICATION Spec\nCONSTANTS\n  Procs <- MCProcs\n  Prog <- MCProg\n  Builtins <- MCBuiltins\n"
                        "  ProgSet = \"%s\"\n  Stamp = %s\n  GenFile = \"%s\"\n  LogFile = \"%s\"\nINVARIANT Inv\nACTION_CONSTRAINT EmitDone\n"
                        "ACTION_CONSTRAINT EmitLog\nCHECK_DEADLOCK FALSE\n" % (ps, "TRUE" if stamp else "FALSE", genf, logf))
            g, dist, _ = vlib.run_tlc(md, "MCRegistry", workers=8, timeout=1800)
            ctx["states"] += dist
            ctx["transitions"] += g
            ctx["mc_info"].append({"module": "MCRegistry", "constants": {"ProgSet": ps, "Stamp": stamp}, "distinct_states": dist, "states_generated": g})
            for line in open(genf):
                # (one line per complete behaviour; behaviours that differ only in when locks were taken and
                # released share their linearization order)
                if line.strip() and line not in seen:
                    seen.add(line)
                    f.write(line)
                    nforced += 1
                    if nforced % 97 == 1 and len(ctx["samples"]) < 8:
                        ctx["samples"].append({"source": "MCRegistry forced schedule", "scenario": json.loads(json.loads(line))})
            # the same behaviours as an observer outside the lock logs them (call / return lines in clock order)
            # (every behaviour of the small sets; one in ten of the half million of each large set)
            step = 10 if ps in ("rw", "ww", "mix") else 1
            for k, line in enumerate(open(logf)):
                if line.strip() and k % step == 0:
                    for ev in json.loads(json.loads(line)):
                        ev["scen"] = "m%d" % nmodel
                        ml.write(json.dumps(ev) + "\n")
                    nmodel += 1
            shutil.rmtree(md, ignore_errors=True)
        if nforced == 0:
            raise Infra("MCRegistry generated no forced schedule")
        nstress = 3 if tier == "quick" else 40
        for i in range(nstress):
            f.write(json.dumps({"stress": {"g": 8 if tier == "quick" else 16, "n": 200 if tier == "quick" else 500, "seed": seed * 100 + i}}) + "\n")
    # specification against specification: every behaviour of the lock-based design model, logged as call/return
    # lines, must be accepted by the trace specification that judges the real registry (else that one is too strict)
    if nmodel == 0:
        raise Infra("MCRegistry wrote no behaviour log")
    mrecs, mnl = _validate_model_logs(mlog, d)
    if mrecs:
        raise Infra("RegistryTrace.tla rejects a behaviour of the design model Registry.tla (the trace specification is too strict): %s"
                    % json.dumps(mrecs[0])[:800])
    ctx["mc_info"].append({"module": "RegistryTrace on the behaviours of MCRegistry", "constants": {}, "behaviours": nmodel, "lines": mnl,
                           "comparisons": dict(vlib.LAST_COMPARED)})
    os.remove(mlog)
    log("registry: %d complete behaviours of the design model accepted by the trace specification; %d distinct linearization orders "
        "(run sequentially on the real registry), %d free-running stress runs" % (nmodel, nforced, nstress))
    if tier != "quick":
        info = registry_proofs(ctx, d)
        ctx["mc_info"].append({"module": "RegistryProof / RegistryInd", "constants": {}, **info})
        log("registry proofs: %s" % info)
    recs, nl, st, lib, fatal = _registry_run(ctx, vdr, d, inp, "a")
    ctx["nscen"] += st.get("scenarios", 0)
    ctx["nops"] += st.get("ops", 0)
    ctx["nlines"] += nl
    # distinct executions: the forced schedules are distinct by construction; a stress run is distinct by what happened in it
    ctx["hashes"].update("forced%d" % i for i in range(nforced))
    ctx["hashes"].add("stress:" + st.get("content", ""))
    viol = []
    if fatal or lib:
        text = fatal or ("WARNING: DATA RACE" + "\nWARNING: DATA RACE".join(lib))
        what = ("registry calls that never returned (a goroutine blocked inside the library)" if fatal.startswith("vdrive: HANG")
                else "a panic inside a registry call" if fatal.startswith("panic: ")
                else "a fatal concurrent map access" if fatal else "%d data race(s)" % len(lib))
        log("MISMATCH the race detector / Go runtime reported %s inside the library during the registry runs; first:\n%s" % (what, text[:1500]))
        viol.append(_phase_artifact(ctx, "C17-race.json", "registry", text))
    if recs:
        # The validated log is itself a record of what the real registry did. Mismatches of the sequential parts
        # (forced schedules, read-back) show again in a rerun; those of a free-running part need their schedule,
        # so a rerun is informative only.
        again = []
        for k in range(3):
            again, _, _, l2, f2 = _registry_run(ctx, vdr, d, inp, "b%d" % k)
            if again or l2 or f2:
                break
        if not again:
            log("NOTE the registry mismatch did not show again in 3 reruns (it depends on the schedule); the recorded log lines are kept in the replay file")
        facets = sorted({r["facet"] for r in recs})
        log("MISMATCH registry facets=%s first=%s" % (facets, json.dumps(recs[0])[:800]))
        viol.append(_phase_artifact(ctx, "C17-registry.json", "registry", "", {"mismatches": recs[:20]}))
    shutil.rmtree(d, ignore_errors=True)
    return viol


def conc_phase(ctx):
    """C16: solo runs, then the same scenarios on goroutines of their own for R rounds with the registry being
    read and extended concurrently; race detector on; each goroutine's log validated as a trace of its own."""
    import gens
    wd, tier, seed = ctx["wd"], ctx["tier"], ctx["seed"]
    d = os.path.join(wd, "conc")
    os.makedirs(d)
    # design-level model
    md = os.path.join(d, "mc")
    vlib.copy_spec(md)
    with open(os.path.join(md, "MCConcurrent.cfg"), "w") as c:
        c.write("SPECIFICATION Spec\nCONSTANTS\n  Owners <- MCOwners\n  Script <- MCScript\n  Builtin <- MCBuiltin\n  Fresh <- MCFresh\n"
                "INVARIANT Inv_C16\nCHECK_DEADLOCK FALSE\n")
    g, dist, _ = vlib.run_tlc(md, "MCConcurrent", workers=4, timeout=600)
    ctx["states"] += dist
    ctx["transitions"] += g
    ctx["mc_info"].append({"module": "MCConcurrent", "constants": {"owners": 3, "steps": 3, "fresh_names": 2},
                           "distinct_states": dist, "states_generated": g})
    shutil.rmtree(md, ignore_errors=True)
    vdr = vlib.build_driver(d, race=True)
    nq = 128 if tier == "quick" else 1024
    scens = (gens.gen_paths(seed, "quick")[:nq // 2] + gens.gen_repeat(seed, "quick")[:nq // 4]
             + gens.gen_text(seed, "quick")[:nq // 8] + gens.gen_html(seed, "quick")[:nq // 16] + gens.gen_json(seed, "quick")[:nq // 16])
    if tier != "quick":
        scens = (gens.gen_paths(seed, "thorough")[:nq // 2] + gens.gen_repeat(seed, "thorough")[:nq // 4]
                 + gens.gen_text(seed, "thorough")[:nq // 8] + gens.gen_html(seed, "thorough")[:nq // 16] + gens.gen_json(seed, "thorough")[:nq // 16])
    # owners must be independent: scenarios that register decoration names would share those names through the
    # process-global registry (the statement has the registry read, and extended with fresh names only)
    scens = [ops for ops in scens if not any(o["op"] == "regdecor" for o in ops)]
    # unusually wide columns, each more than twice as wide as any the process has rendered before, one in every other
    # group of goroutines (and two in one group): whatever the library grows on demand and shares between tables
    # (a padding run, a scratch buffer) is written by that goroutine while its neighbours read it
    grp = 16 if tier == "quick" else 64
    for j, width in enumerate([90, 200, 420, 900, 1900, 1900]):
        wide = [{"op": "newtable", "via": "core"},
                {"op": "headers", "t": 1, "items": [gens.S("h"), gens.S("i")]},
                {"op": "rowitems", "t": 1, "items": [gens.S("w" * width), gens.S("a")]},
                {"op": "rowitems", "t": 1, "items": [gens.S("b"), gens.S("ccc")]},
                {"op": "setprop", "owner": {"kind": "column", "t": 1, "n": 1}, "k": "k_align", "v": ["vL", "vR", "vC"][j % 3]},
                {"op": "wrap", "kind": "text", "over": {"t": 1}},
                {"op": "render", "w": 1, "entry": "Render"},
                {"op": "render", "pkg": "md", "t": 1, "entry": "RenderTo"}]
        scens.insert(min(len(scens), min(j, 4) * 2 * grp + 5 + j), wide)
    sp = os.path.join(d, "scen.ndjson")
    vlib.write_scenarios(sp, [("k%d" % i, ops) for i, ops in enumerate(scens)])
    for i, ops in enumerate(scens):
        ctx["hashes"].add(vlib.scen_hash(ops))
        if i % 37 == 1 and len(ctx["samples"]) < 6:
            ctx["samples"].append({"source": "concurrent owner scenario", "ops": ops})
    rounds = 5 if tier == "quick" else 30
    group = 16 if tier == "quick" else 64
    tp = os.path.join(d, "trace.ndjson")
    env = vlib.goenv()
    env["GORACE"] = "halt_on_error=0 exitcode=0"
    p = vlib.run([vdr, "-mode", "conc", "-in", sp, "-out", tp, "-facets", "none", "-rounds", str(rounds), "-group", str(group),
                  "-subst", str(seed)], env=env, timeout=3000, check=False)
    out = p.stdout or ""
    reports, lib = _library_race(out)
    if p.returncode != 0:
        if lib:
            log("MISMATCH the race detector reported %d data race(s) with library frames before the driver died; first:\n%s" % (len(lib), lib[0][:1500]))
            shutil.rmtree(d, ignore_errors=True)
            return [_phase_artifact(ctx, "%s-race.json" % ctx["prop"], "conc", "WARNING: DATA RACE" + "\nWARNING: DATA RACE".join(lib))]
        if _library_panic(out):
            log("MISMATCH a library call panicked on a goroutine of the concurrent run:\n%s" % out[out.find("\npanic: "):][:1500])
            shutil.rmtree(d, ignore_errors=True)
            return [_phase_artifact(ctx, "%s-panic.json" % ctx["prop"], "conc", out[out.find("\npanic: "):])]
        if _library_fatal(out):
            log("MISMATCH the Go runtime aborted the concurrent run: unsynchronised map access inside the library")
            shutil.rmtree(d, ignore_errors=True)
            return [_phase_artifact(ctx, "%s-fatal.json" % ctx["prop"], "conc", out)]
        raise Infra("concurrent driver failed (%d): %s" % (p.returncode, out[-3000:]))
    m = re.search(r'vdrive: (\{.*\})', out)
    if not m:
        raise Infra("the concurrent driver printed no statistics")
    st = json.loads(m.group(1))
    log("concurrent: %d scenarios solo, then %d rounds in groups of %d goroutines" % (len(scens), rounds, group))
    viol = []
    if reports and not lib:
        raise Infra("the race detector reported a race without a library frame (driver bug?):\n" + reports[0][:3000])
    if lib:
        log("MISMATCH the race detector reported %d data race(s) with library frames; first:\n%s" % (len(lib), lib[0][:1500]))
        viol.append(_phase_artifact(ctx, "%s-race.json" % ctx["prop"], "conc", "WARNING: DATA RACE" + "\nWARNING: DATA RACE".join(lib)))
    recs, nl = vlib.validate(tp, d, module="TabularTrace")
    if vlib.LAST_COMPARED.get("#reset") != st.get("scenarios", 0) + 1:
        raise Infra("the concurrent driver ran %s scenarios (+1 comparison record), the validator saw %r"
                    % (st.get("scenarios"), vlib.LAST_COMPARED.get("#reset")))
    if not vlib.LAST_COMPARED.get("res.unequal"):
        raise Infra("the concurrent run was not compared with the solo runs")
    ctx["nscen"] += st.get("scenarios", 0)
    ctx["nops"] += st.get("ops", 0)
    ctx["nlines"] += nl
    own = [r for r in recs if r["facet"] in ctx["plan"]["own"] or r["facet"] == "res.panic"]
    if own:
        # a mismatch in a solo run is deterministic; one in a concurrent round is kept as observed
        log("MISMATCH concurrent facets=%s scenarios=%d first=%s" % (sorted({r["facet"] for r in own}), len(own), json.dumps(own[0])[:800]))
        viol.append(_phase_artifact(ctx, "%s-conc.json" % ctx["prop"], "conc", "",
                                    {"rounds": rounds, "group": group, "mismatches": [{k: v for k, v in r.items() if k != "shard"} for r in own[:10]]}))
    shutil.rmtree(d, ignore_errors=True)
    return viol
