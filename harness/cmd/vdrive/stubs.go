package main

import (
	"fmt"
	"io"
	"sort"
	"strconv"

	"go.pennock.tech/tabular"
	"go.pennock.tech/tabular/auto"
	"go.pennock.tech/tabular/csv"
	"go.pennock.tech/tabular/html"
	tjson "go.pennock.tech/tabular/json"
	"go.pennock.tech/tabular/markdown"
	"go.pennock.tech/tabular/properties/align"
	"go.pennock.tech/tabular/texttable"
	"go.pennock.tech/tabular/texttable/decoration"
)

// renderAll (C09): every renderer x every registered decoration (plus an unknown
// name and a custom decoration) x every entry point (wrapper method Render /
// RenderTo, package function, auto.Render for every listed style), each under
// recover. One entry per call: [format, decoration, entry, status, textEmpty].
func (w *world) renderAll(tid int) []interface{} {
	t := w.table(tid)
	var out []interface{}
	call := func(fmtName, dec, entry string, f func() (string, error)) {
		status, text := "ok", ""
		func() {
			defer func() {
				if r := recover(); r != nil {
					mustBeLibrary(r, "renderall "+fmtName+" "+entry)
					status = "panic"
				}
			}()
			s, err := f()
			text = s
			if err != nil {
				status = "error"
			}
		}()
		out = append(out, []interface{}{fmtName, dec, entry, status, b2i(text == "")})
	}
	viaTo := func(f func(io.Writer) error) func() (string, error) {
		return func() (string, error) {
			sk := &sink{}
			err := f(sk)
			if err != nil {
				return "", err // what RenderTo wrote before failing is C15's business
			}
			return string(sk.b), nil
		}
	}
	names := append(decoration.RegisteredDecorationNames(), "no-such-decoration")
	for _, n := range names {
		tt := texttable.Wrap(t)
		tt.SetDecorationNamed(n)
		call("text", n, "Render", tt.Render)
		call("text", n, "RenderTo", viaTo(tt.RenderTo))
	}
	custom := texttable.Wrap(t)
	custom.SetDecoration(customDecoration(M{"Horizontal": "~", "VBorder": "!"}))
	call("text", "custom", "Render", custom.Render)
	call("text", "default", "pkg.Render", func() (string, error) { return texttable.Render(t) })
	call("text", "default", "pkg.RenderTo", viaTo(func(wr io.Writer) error { return texttable.RenderTo(t, wr) }))
	call("csv", "", "Render", csv.Wrap(t).Render)
	call("csv", "", "RenderTo", viaTo(csv.Wrap(t).RenderTo))
	call("csv", "", "pkg.Render", func() (string, error) { return csv.Render(t) })
	call("html", "", "Render", html.Wrap(t).Render)
	call("html", "", "RenderTo", viaTo(html.Wrap(t).RenderTo))
	call("json", "", "Render", tjson.Wrap(t).Render)
	call("json", "", "RenderTo", viaTo(tjson.Wrap(t).RenderTo))
	call("json", "", "pkg.Render", func() (string, error) { return tjson.Render(t) })
	call("md", "", "Render", markdown.Wrap(t).Render)
	call("md", "", "RenderTo", viaTo(markdown.Wrap(t).RenderTo))
	call("md", "", "pkg.Render", func() (string, error) { return markdown.Render(t) })
	for _, style := range append(auto.ListStyles(), "texttable", "no-such-style") {
		st := style
		call("auto", st, "auto.Render", func() (string, error) { return auto.Render(t, st) })
	}
	return out
}

// autoProbe (C19): what auto.New(style) is (dynamic type, decoration) and whether a
// small table built through it renders.
func autoProbe(style string) M {
	res := M{"style": style}
	func() {
		defer func() {
			if r := recover(); r != nil {
				mustBeLibrary(r, "autoprobe")
				res["status"], res["empty"], res["panic"] = "panic", 0, fmt.Sprint(r)
			}
		}()
		rt := auto.New(style)
		res["kind"] = kindOf(rt)
		if d := decorOfWrapper(rt); d != nil {
			res["hasdec"], res["dec"] = 1, d
		} else {
			res["hasdec"], res["dec"] = 0, M{"boxless": 0, "empty": 0, "g": M{}}
		}
		rt.AddHeaders("h", "i")
		rt.AddRowItems("a", "b")
		rt.AddRowItems("c", "d")
		txt, err := rt.Render()
		if err != nil {
			res["status"] = "error"
		} else {
			res["status"] = "ok"
		}
		res["empty"] = b2i(txt == "")
	}()
	if _, ok := res["kind"]; !ok {
		res["kind"], res["hasdec"], res["dec"] = "?", 0, M{"boxless": 0, "empty": 0, "g": M{}}
	}
	return res
}

var _ = tabular.New

func (w *world) execRender2(op M) bool {
	switch opStr(op, "op") {
	case "autonew":
		w.lastRes = M{"auto": autoProbe(opStr(op, "style"))}
		return true
	case "liststyles":
		l := auto.ListStyles()
		il := make([]interface{}, len(l))
		each := []interface{}{}
		for i, s := range l {
			il[i] = s
			p := autoProbe(s)
			each = append(each, []interface{}{s, p["kind"], p["status"], p["empty"]})
		}
		w.lastRes = M{"styles": M{"list": il, "sorted": b2i(sort.StringsAreSorted(l)), "each": each}}
		return true
	case "faultsweep":
		w.lastRes = M{"faults": w.faultSweep(op)}
		return true
	case "renderall":
		w.lastRes = M{"all": w.renderAll(opInt(op, "t"))}
		return true
	case "measure":
		w.lastRes = M{"metrics": obsMetrics(op)}
		return true
	case "within":
		// decoration.WidthString.WithinWidth / WithinWidthAligned
		ws := decoration.WidthString{S: opStr(op, "s"), W: opInt(op, "w")}
		var out string
		switch opStr(op, "align") {
		case "none":
			out = ws.WithinWidth(opInt(op, "avail"))
		case "left":
			out = ws.WithinWidthAligned(opInt(op, "avail"), align.Left)
		case "right":
			out = ws.WithinWidthAligned(opInt(op, "avail"), align.Right)
		case "centre":
			out = ws.WithinWidthAligned(opInt(op, "avail"), align.Center)
		default:
			derr("within: alignment %v", op["align"])
		}
		w.lastRes = M{"within": out}
		return true
	case "emitter":
		// decoration.Decoration.ForColumnWidths: the rule lines and one header / body content line
		var d decoration.Decoration
		if _, ok := op["custom"]; ok {
			d = customDecoration(opMap(op, "custom"))
		} else {
			d = decoration.Named(opStr(op, "name"))
		}
		op["dec"] = decorObs(d)
		var widths []int
		for _, x := range opList(op, "widths") {
			widths = append(widths, jsonInt(x))
		}
		var cells []decoration.WidthString
		for _, x := range opList(op, "cells") {
			c := x.([]interface{})
			cells = append(cells, decoration.WidthString{S: c[0].(string), W: jsonInt(c[1])})
		}
		var aligns []align.Alignment
		for _, x := range opList(op, "aligns") {
			switch x {
			case "left":
				aligns = append(aligns, align.Left)
			case "right":
				aligns = append(aligns, align.Right)
			case "centre":
				aligns = append(aligns, align.Center)
			default:
				derr("emitter: alignment %v", x)
			}
		}
		e := d.ForColumnWidths(widths)
		w.lastRes = M{"emitter": M{"HeaderTop": e.LineHeaderTop(), "HeaderBodySep": e.LineHeaderBodySep(), "BodyTop": e.LineBodyTop(),
			"Bottom": e.LineBottom(), "Separator": e.LineSeparator(),
			"HeaderLine": e.HeaderLineRendered(cells, aligns), "BodyLine": e.BodyLineRendered(cells, aligns)}}
		return true
	case "rowlines":
		// TextTable.RowToLinesOfWidthStrings for one row of the wrapper's table (after a render measured it)
		wr := w.wrapperOf(opInt(op, "w"))
		tt, ok := wr.rt.(*texttable.TextTable)
		if !ok {
			derr("rowlines on %s wrapper", wr.kind)
		}
		lines := tt.RowToLinesOfWidthStrings(w.row(opInt(op, "r")).Cells(), tt.NColumns())
		ol := make([]interface{}, len(lines))
		for i, ln := range lines {
			cl := make([]interface{}, len(ln))
			for j, x := range ln {
				cl[j] = []interface{}{x.S, x.W}
			}
			ol[i] = cl
		}
		w.lastRes = M{"rowlines": ol}
		return true
	}
	return false
}

func jsonInt(x interface{}) int {
	n, err := strconv.Atoi(fmt.Sprint(x))
	if err != nil {
		derr("not an integer: %v", x)
	}
	return n
}

func (w *world) observeMore(obs M, facets map[string]bool, op M) {}
