package main

import (
	"fmt"
	"reflect"
	"strings"
	"sync"

	"go.pennock.tech/tabular"
	"go.pennock.tech/tabular/properties"
	"go.pennock.tech/tabular/properties/align"
)

// ---- property keys and values (C12) ---------------------------------------

type keyStructA struct{ N int }
type keyStructB struct{ N int }
type markKey struct{ cb int }

var (
	ptrKey1 = &keyStructA{1}
	ptrKey2 = &keyStructA{1}
)

var keyNames = []string{"k_int", "k_int64", "k_u8", "k_str", "k_named", "k_sA", "k_sB", "k_p1", "k_p2", "k_align", "k_skip"}

func keyValue(name string) interface{} {
	switch name {
	case "k_int":
		return int(1)
	case "k_int64":
		return int64(1)
	case "k_u8":
		return uint8(1)
	case "k_str":
		return "1"
	case "k_named":
		return namedString("1")
	case "k_sA":
		return keyStructA{1}
	case "k_sB":
		return keyStructB{1}
	case "k_p1":
		return ptrKey1
	case "k_p2":
		return ptrKey2
	case "k_align":
		return align.PropertyType
	case "k_skip":
		return properties.Skipable
	}
	if strings.HasPrefix(name, "mark") {
		var n int
		fmt.Sscanf(name, "mark%d", &n)
		return markKey{n}
	}
	derr("unknown key %q", name)
	return nil
}

var valNames = []string{"v1", "v2", "v3", "vtrue", "vfalse", "vL", "vR", "vC", "vbad", "vq1", "vq2"}

// two distinct objects with equal contents: "the value most recently set" is told apart by identity only
var valQ1, valQ2 = &plainStruct{7, "q"}, &plainStruct{7, "q"}

func valValue(name string) interface{} {
	switch name {
	case "nil":
		return nil
	case "v1":
		return 1
	case "v2":
		return "1"
	case "v3":
		return plainStruct{1, "x"}
	case "vtrue":
		return true
	case "vfalse":
		return false
	case "vL":
		return align.Left
	case "vR":
		return align.Right
	case "vC":
		return align.Center
	case "vbad":
		return "not-a-bool"
	case "vq1":
		return valQ1
	case "vq2":
		return valQ2
	}
	derr("unknown value %q", name)
	return nil
}

func valName(v interface{}) string {
	if v == nil {
		return "nil"
	}
	for _, n := range valNames {
		if valValue(n) == v {
			return n
		}
	}
	return fmt.Sprintf("?%v", v)
}

// ---- references ------------------------------------------------------------

type foreignOwner struct{ m map[interface{}]interface{} }

func (f *foreignOwner) SetProperty(k, v interface{}) error    { f.m[k] = v; return nil }
func (f *foreignOwner) GetProperty(k interface{}) interface{} { return f.m[k] }

// owner resolves a reference record to a live PropertyOwner fetched through
// the public API at this moment.
func (w *world) owner(ref M) tabular.PropertyOwner {
	switch opStr(ref, "kind") {
	case "table":
		return w.table(opInt(ref, "t"))
	case "atable":
		return w.atables[opInt(ref, "t")-1]
	case "column":
		c := w.table(opInt(ref, "t")).Column(opInt(ref, "n"))
		if c == nil {
			derr("no column %v", ref)
		}
		return c
	case "row":
		return w.row(opInt(ref, "r"))
	case "cell":
		return w.cellPtr(opInt(ref, "r"), opInt(ref, "c"))
	case "hcell":
		hs := w.table(opInt(ref, "t")).Headers()
		c := opInt(ref, "c")
		if c < 1 || c > len(hs) {
			derr("no header cell %v", ref)
		}
		return &hs[c-1]
	case "cellvar":
		return w.cellvars[opInt(ref, "v")-1]
	case "handle":
		return w.handles[opInt(ref, "h")-1]
	case "wrapper":
		return w.wrappers[opInt(ref, "w")-1].rt
	case "foreign":
		return &foreignOwner{m: map[interface{}]interface{}{}}
	}
	derr("unknown ref kind %v", ref["kind"])
	return nil
}

func (w *world) cellPtr(r, c int) *tabular.Cell {
	cs := w.row(r).Cells()
	if c < 1 || c > len(cs) {
		derr("no cell (%d,%d)", r, c)
	}
	return &cs[c-1]
}

// ---- recording callbacks (C13, C11) ---------------------------------------

type recCB struct {
	w     *world
	id    int
	fails int // 0 never; 1 a fresh error per invocation; 2 the world's one sentinel error value, every time
	count int
}

func (cb *recCB) UpdateProperties(po tabular.PropertyOwner) error {
	// the target is identified after the call returns (objects created by the
	// call itself, e.g. the row of AddRowItems, are only known to the driver then)
	cb.w.cbraw = append(cb.w.cbraw, cbEvent{cb.id, po})
	po.SetProperty(markKey{cb.id}, true)
	switch cb.fails {
	case 1:
		cb.count++
		return cb.w.newErr(fmt.Sprintf("CB%d:%d", cb.id, cb.count))
	case 2:
		if cb.w.sentinel == nil {
			cb.w.sentinel = cb.w.newErr("SENT")
		}
		return cb.w.sentinel
	}
	return nil
}

type cbEvent struct {
	cb int
	po tabular.PropertyOwner
}

func (w *world) resolveCbLog() {
	for _, e := range w.cbraw {
		kind, a, b := w.identify(e.po)
		w.cblog = append(w.cblog, []interface{}{e.cb, kind, a, b})
	}
	w.cbraw = nil
}

func (w *world) identify(po tabular.PropertyOwner) (string, int, int) {
	switch x := po.(type) {
	case *tabular.ATable:
		for i, t := range w.atables {
			if t == x {
				return "table", i + 1, 0
			}
		}
		return "table?", 0, 0
	case *tabular.Row:
		if id, ok := w.rowOf[x]; ok {
			return "row", id, 0
		}
		return "hrow", 0, 0
	case *tabular.Cell:
		for i, r := range w.rows {
			cs := r.Cells()
			for j := range cs {
				if &cs[j] == x {
					return "cell", i + 1, j + 1
				}
			}
		}
		for i, t := range w.tables {
			hs := t.Headers()
			for j := range hs {
				if &hs[j] == x {
					return "hcell", i + 1, j + 1
				}
			}
		}
		return "cell?", 0, 0
	}
	if fmt.Sprintf("%T", po) == "*tabular.column" {
		for i, t := range w.tables {
			for n := 0; n <= t.NColumns(); n++ {
				if tabular.PropertyOwner(t.Column(n)) == po {
					return "column", i + 1, n
				}
			}
		}
		return "colcopy", 0, 0
	}
	return fmt.Sprintf("?%T", po), 0, 0
}

// ---- ops -------------------------------------------------------------------

func (w *world) errArg(op M, k string) error {
	e := opStr(op, k)
	if e == "nil" {
		return nil
	}
	return w.newErr(e)
}

func (w *world) execMore(op M) bool {
	switch opStr(op, "op") {
	case "rowerr":
		w.row(opInt(op, "r")).AddError(w.errArg(op, "e"))
	case "tblerr":
		w.table(opInt(op, "t")).AddError(w.errArg(op, "e"))
	case "ecnew":
		switch opStr(op, "kind") {
		case "made":
			w.ecs = append(w.ecs, tabular.NewErrorContainer())
		case "zero":
			w.ecs = append(w.ecs, &tabular.ErrorContainer{})
		case "nil":
			w.ecs = append(w.ecs, nil)
		default:
			derr("ecnew kind %v", op["kind"])
		}
	case "ecadd":
		w.ecs[opInt(op, "ec")-1].AddError(w.errArg(op, "e"))
	case "ecaddlist":
		ec := w.ecs[opInt(op, "ec")-1]
		var list []error
		if _, ok := op["from"]; ok {
			list = w.ecs[opInt(op, "from")-1].Errors()
		} else if _, ok := op["nillist"]; ok {
			list = nil
		} else {
			list = []error{}
			for _, e := range opList(op, "list") {
				if e.(string) == "nil" {
					list = append(list, nil)
				} else {
					list = append(list, w.newErr(e.(string)))
				}
			}
		}
		ec.AddErrorList(list)
		// the caller's list is a scratch list: it is overwritten as soon as the call returns (a container that
		// adopted the slice instead of copying its elements now reports errors nobody raised)
		// (only a list this driver built itself: the list of another container belongs to that container)
		if _, other := op["from"]; !other {
			for i := range list {
				list[i] = &idErr{"SCRATCH-OVERWRITTEN"}
			}
		}
	case "setprop":
		ref := opMap(op, "owner")
		if opStr(ref, "kind") == "column" && w.table(opInt(ref, "t")).Column(opInt(ref, "n")) == nil {
			// the scenario (written against the model) names a column the library does not have: an
			// observation, not a driver error -- the model decides whether that column must exist
			w.lastRes = M{"err": 0, "nocolumn": 1}
			break
		}
		o := w.owner(ref)
		err := o.SetProperty(keyValue(opStr(op, "k")), valValue(opStr(op, "v")))
		w.lastRes = M{"err": b2i(err != nil)}
	case "copycell":
		src := w.owner(opMap(op, "from")).(*tabular.Cell)
		cp := *src
		w.cellvars = append(w.cellvars, &cp)
	case "takecol":
		c := w.table(opInt(op, "t")).Column(opInt(op, "n"))
		if c == nil {
			derr("takecol: nil column")
		}
		w.handles = append(w.handles, c)
	case "regcb":
		cb := &recCB{w: w, id: len(w.cbs) + 1, fails: opIntDef(op, "fails", 0)}
		w.cbs = append(w.cbs, cb)
		t := w.table(opInt(op, "t"))
		o := w.owner(opMap(op, "owner"))
		var err error
		tm, tg := opStr(op, "time"), opStr(op, "target")
		err = registerCB(t, o, tm, tg, cb)
		w.lastRes = M{"regerr": b2i(err != nil)}
	case "rendercbs":
		w.table(opInt(op, "t")).InvokeRenderCallbacks()
	case "mutate":
		// change the payload of the pointer item stored in a cell
		c := w.owner(opMap(op, "cell")).(*tabular.Cell)
		d := opMap(op, "item")
		if vs, ok := c.Item().(valSlice); ok {
			// the struct value in the cell shares its slice with the outside: overwrite the elements in place
			nw := strings.Split(strings.TrimPrefix(opStr(d, "which"), "valslice:"), ",")
			if len(nw) != len(vs.Tags) {
				derr("mutate: valslice of another length")
			}
			copy(vs.Tags, nw)
		} else if !setPayload(c.Item(), payloadOf(d)) {
			derr("mutate: item %T is not a generated object", c.Item())
		}
		augmentItem(d, c.Item())
	case "update":
		w.owner(opMap(op, "cell")).(*tabular.Cell).Update()
	default:
		return w.execRender(op)
	}
	return true
}

// registerCB maps the symbolic time/target to the library's constants. Their
// types are unexported, so each combination is spelled out.
func registerCB(t tabular.Table, o tabular.PropertyOwner, tm, tg string, cb tabular.PropertyCallback) error {
	switch tm + "/" + tg {
	case "add/itself":
		return t.RegisterPropertyCallback(o, tabular.CB_AT_ADD, tabular.CB_ON_ITSELF, cb)
	case "add/cell":
		return t.RegisterPropertyCallback(o, tabular.CB_AT_ADD, tabular.CB_ON_CELL, cb)
	case "add/row":
		return t.RegisterPropertyCallback(o, tabular.CB_AT_ADD, tabular.CB_ON_ROW, cb)
	case "pre/itself":
		return t.RegisterPropertyCallback(o, tabular.CB_AT_RENDER_PRECELL, tabular.CB_ON_ITSELF, cb)
	case "pre/cell":
		return t.RegisterPropertyCallback(o, tabular.CB_AT_RENDER_PRECELL, tabular.CB_ON_CELL, cb)
	case "pre/row":
		return t.RegisterPropertyCallback(o, tabular.CB_AT_RENDER_PRECELL, tabular.CB_ON_ROW, cb)
	case "render/itself":
		return t.RegisterPropertyCallback(o, tabular.CB_AT_RENDER, tabular.CB_ON_ITSELF, cb)
	case "render/cell":
		return t.RegisterPropertyCallback(o, tabular.CB_AT_RENDER, tabular.CB_ON_CELL, cb)
	case "render/row":
		return t.RegisterPropertyCallback(o, tabular.CB_AT_RENDER, tabular.CB_ON_ROW, cb)
	case "post/itself":
		return t.RegisterPropertyCallback(o, tabular.CB_AT_RENDER_POSTCELL, tabular.CB_ON_ITSELF, cb)
	case "post/cell":
		return t.RegisterPropertyCallback(o, tabular.CB_AT_RENDER_POSTCELL, tabular.CB_ON_CELL, cb)
	case "post/row":
		return t.RegisterPropertyCallback(o, tabular.CB_AT_RENDER_POSTCELL, tabular.CB_ON_ROW, cb)
	}
	derr("bad time/target %s/%s", tm, tg)
	return nil
}

// ---- props facet -----------------------------------------------------------

// obsProps: every live owner × every key of the universe (fixed keys plus the
// marks of all registered callbacks); only non-nil values are logged.
func (w *world) obsProps() M {
	keys := append([]string{}, keyNames...)
	for i := range w.cbs {
		keys = append(keys, fmt.Sprintf("mark%d", i+1))
	}
	var out []interface{}
	var chain []interface{}
	probe := func(o tabular.PropertyOwner, kind string, a, b int) {
		for _, k := range keys {
			v := o.GetProperty(keyValue(k))
			if v != nil {
				out = append(out, []interface{}{kind, a, b, k, valName(v)})
			}
		}
	}
	for ti, t := range w.tables {
		probe(t, "table", ti+1, 0)
		chain = append(chain, []interface{}{"table", ti + 1, 0, chainLen(w.atables[ti])})
		for n := 0; n <= t.NColumns(); n++ {
			probe(t.Column(n), "column", ti+1, n)
			chain = append(chain, []interface{}{"column", ti + 1, n, chainLen(t.Column(n))})
		}
		hs := t.Headers()
		for j := range hs {
			probe(&hs[j], "hcell", ti+1, j+1)
			chain = append(chain, []interface{}{"hcell", ti + 1, j + 1, chainLen(&hs[j])})
		}
	}
	for ri, r := range w.rows {
		probe(r, "row", ri+1, 0)
		chain = append(chain, []interface{}{"row", ri + 1, 0, chainLen(r)})
		cs := r.Cells()
		for j := range cs {
			probe(&cs[j], "cell", ri+1, j+1)
			chain = append(chain, []interface{}{"cell", ri + 1, j + 1, chainLen(&cs[j])})
		}
	}
	for i, c := range w.cellvars {
		probe(c, "cellvar", i+1, 0)
		chain = append(chain, []interface{}{"cellvar", i + 1, 0, chainLen(c)})
	}
	for i, h := range w.handles {
		probe(h, "handle", i+1, 0)
	}
	return M{"vals": orEmpty(out), "chain": orEmpty(chain)}
}

// chainLen counts the links of an owner's property chain by walking the (unexported) fields with
// reflection: owner.propertyImpl.properties -> *valueProperty{chain, key, val} -> ... (read-only).
// chainLen measures an owner's stored property state. It does not depend on the names of the library's private
// types and fields: starting from the owner, only values whose static type belongs to the library's core package
// are followed; a map or slice counts its length, and a struct that holds something of the empty interface type (a
// key, a value) counts as one entry -- so a linked chain of (key, value, next) links, a map and a slice of pairs all
// measure as their number of entries. If nothing measurable is found after a property has been set, the growth
// clause cannot be measured: that is a failure of the machinery (exit 2), never silently accepted.
func chainLen(owner interface{}) int {
	propMeasureOnce.Do(func() {
		t := tabular.New()
		t.SetProperty("verif-probe", 1)
		if propSize(reflect.ValueOf(t), 0) < 1 {
			derr("the stored property state of the library's owners cannot be measured by this driver (representation not recognised)")
		}
	})
	return propSize(reflect.ValueOf(owner), 0)
}

var propMeasureOnce sync.Once

const corePkg = "go.pennock.tech/tabular"

var emptyIface = reflect.TypeOf((*interface{})(nil)).Elem()

// isPropType: a type of the core package whose name says it is about properties (the walk starts at such a field of
// the owner, so that rows' cells, tables' rows and callback lists are not mistaken for property storage)
func isPropType(t reflect.Type) bool {
	for t.Kind() == reflect.Ptr {
		t = t.Elem()
	}
	return t.PkgPath() == corePkg && strings.Contains(strings.ToLower(t.Name()), "propert")
}

func propSize(v reflect.Value, depth int) int {
	if depth > 200000 {
		return depth
	}
	for v.Kind() == reflect.Ptr || v.Kind() == reflect.Interface {
		if v.IsNil() {
			return 0
		}
		v = v.Elem()
	}
	switch v.Kind() {
	case reflect.Map, reflect.Slice:
		return v.Len()
	case reflect.Struct:
		if v.Type().PkgPath() != corePkg {
			return 0
		}
		n := 0
		entry := false
		inProps := isPropType(v.Type())
		for i := 0; i < v.NumField(); i++ {
			f := v.Field(i)
			ft := v.Type().Field(i).Type
			if ft == emptyIface {
				entry = entry || inProps
				continue
			}
			if inProps || isPropType(ft) {
				switch f.Kind() {
				case reflect.Ptr, reflect.Interface, reflect.Map, reflect.Slice, reflect.Struct:
					if inProps && !(isPropType(ft) || f.Kind() == reflect.Map || f.Kind() == reflect.Slice) {
						continue
					}
					n += propSize(f, depth+1)
				}
			}
		}
		if entry {
			n++
		}
		return n
	}
	return 0
}
