package main

import (
	"bufio"
	"bytes"
	"crypto/sha1"
	"encoding/json"
	"fmt"
	"math/rand"
	"os"
	"runtime"
	"sort"
	"strconv"
	"sync"
	"time"

	"go.pennock.tech/tabular/auto"
	"go.pennock.tech/tabular/texttable/decoration"
)

// Registry mode (C17). Input lines:
//   {"procs": [[op...]...], "order": [[p, i]...]}   forced schedule (from MCRegistry)
//   {"stress": {"g": 8, "n": 200, "seed": 1}}       free-running goroutines
//   {"probe": 1}                                     mutual-exclusion probe
// Output: one NDJSON line per registry operation in the order in which the
// operations took effect (the hook inside the critical section stamps a global
// sequence number under the registry's own lock), validated by RegistryTrace.tla.

func decID(d decoration.Decoration) string {
	if d == decoration.EmptyDecoration {
		return "EMPTY"
	}
	h := sha1.Sum([]byte(fmt.Sprintf("%+v", d)))
	return fmt.Sprintf("%x", h[:6])
}

func decFromToken(tok string) decoration.Decoration {
	d := decoration.Decoration{HOuter: tok, Horizontal: "-", Vertical: "|", CrossPiece: "+"}
	d.Populate()
	return d
}

func goid() int {
	var buf [64]byte
	n := runtime.Stack(buf[:], false)
	// "goroutine 123 [running]:..."
	f := bytes.Fields(buf[:n])
	id, _ := strconv.Atoi(string(f[1]))
	return id
}

type hookEvent struct {
	seq  int
	gid  int
	ev   string
	name string
}

// The recorder has its own mutex: the hook runs inside the registry's critical
// section, but lookups and listings may legitimately share that section with each
// other (a readers/writer lock), so the registry's lock is not relied upon here.
// A sequence number is still a valid linearization stamp: it is taken while the
// operation holds its lock, and a registration excludes everything else.
type regRecorder struct {
	seq    int
	events []hookEvent
	hold   map[int]chan struct{}
	held   chan int
	mu     sync.Mutex
}

func (r *regRecorder) hook(ev, name string) {
	g := goid()
	r.mu.Lock()
	r.seq++
	r.events = append(r.events, hookEvent{r.seq, g, ev, name})
	ch := r.hold[g]
	r.mu.Unlock()
	if ch != nil {
		r.held <- g
		<-ch // stay inside the critical section until released
	}
}

type regCall struct {
	ev, name, did string
	res           interface{}
	sorted        int
	skip          bool // the registry was read through another API (auto.ListStyles): pair the hook event, log nothing
}

func doRegOp(op M, prefix string) regCall {
	switch opStr(op, "op") {
	case "register":
		d := decFromToken(prefix + opStr(op, "d"))
		decoration.RegisterDecorationName(prefix+opStr(op, "name"), d)
		return regCall{ev: "register", name: prefix + opStr(op, "name"), did: decID(d)}
	case "named":
		d := decoration.Named(prefix + opStr(op, "name"))
		return regCall{ev: "named", name: prefix + opStr(op, "name"), res: decID(d)}
	case "list":
		l := decoration.RegisteredDecorationNames()
		ok := sort.StringsAreSorted(l)
		for i := 1; i < len(l); i++ {
			if l[i] == l[i-1] {
				ok = false
			}
		}
		il := make([]interface{}, len(l))
		for i, s := range l {
			il[i] = s
		}
		return regCall{ev: "list", res: il, sorted: b2i(ok)}
	}
	derr("registry op %v", op["op"])
	return regCall{}
}

func runRegistryMode(in *os.File, out *bufio.Writer) {
	rec := &regRecorder{hold: map[int]chan struct{}{}, held: make(chan int, 16)}
	decoration.VerifHook = rec.hook
	// The very first contact of this process with the registry may be an application's override of a
	// built-in name (as from an init function): it must stick.
	early := []interface{}{}
	if *flagEarly != "" {
		d := decFromToken("early-" + *flagEarly)
		decoration.RegisterDecorationName(*flagEarly, d)
		early = []interface{}{*flagEarly, decID(d)}
	}
	// initial content
	init := []interface{}{}
	for _, n := range decoration.RegisteredDecorationNames() {
		init = append(init, []interface{}{n, decID(decoration.Named(n))})
	}
	rec.mu.Lock()
	rec.events = nil
	rec.mu.Unlock()
	writeLine(out, M{"ev": "init", "names": init, "early": early})

	// flush: pair the hook events (in seq order) with the calls of each goroutine
	flush := func(scen string, calls map[int][]regCall) {
		next := map[int]int{}
		rec.mu.Lock()
		evs := rec.events
		rec.events = nil
		rec.mu.Unlock()
		sort.Slice(evs, func(i, j int) bool { return evs[i].seq < evs[j].seq })
		for _, e := range evs {
			cs := calls[e.gid]
			k := next[e.gid]
			if k >= len(cs) {
				derr("hook event without a call (goroutine %d)", e.gid)
			}
			next[e.gid] = k + 1
			c := cs[k]
			if c.ev != e.ev {
				derr("hook event %s does not match call %s", e.ev, c.ev)
			}
			if c.skip {
				continue
			}
			line := M{"ev": c.ev, "scen": scen, "g": e.gid, "name": c.name, "seq": e.seq}
			switch c.ev {
			case "register":
				line["did"] = c.did
			case "named":
				line["res"] = c.res
			case "list":
				line["res"] = c.res
				line["sorted"] = c.sorted
			}
			writeLine(out, line)
		}
		for g, cs := range calls {
			if next[g] != len(cs) {
				// a call that never reached its hook: the operation bypassed the critical section
				writeLine(out, M{"ev": "nohook", "scen": scen, "g": g, "missing": len(cs) - next[g]})
			}
		}
	}

	sc := bufio.NewScanner(in)
	sc.Buffer(make([]byte, 1<<20), 1<<26)
	n := 0
	for sc.Scan() {
		line := bytes.TrimSpace(sc.Bytes())
		if len(line) == 0 {
			continue
		}
		if line[0] == '"' {
			var s string
			if err := json.Unmarshal(line, &s); err != nil {
				fatal(err)
			}
			line = []byte(s)
		}
		dec := json.NewDecoder(bytes.NewReader(line))
		dec.UseNumber()
		var sc M
		if err := dec.Decode(&sc); err != nil {
			fatal(err)
		}
		n++
		scen := fmt.Sprintf("g%d", n)
		prefix := scen + "_"
		if n%2 == 1 {
			// every other scenario uses names that sort after all built-in names, so that
			// overwriting the lexicographically greatest registered name is exercised too
			prefix = fmt.Sprintf("zz%06d_", n)
		}
		switch {
		case sc["procs"] != nil:
			procs := opList(sc, "procs")
			order := opList(sc, "order")
			// forced schedule: goroutine p performs its i-th op when (p, i) is next in order
			turn := make([]chan struct{}, len(order)+1)
			for i := range turn {
				turn[i] = make(chan struct{})
			}
			pos := map[[2]int]int{}
			for k, o := range order {
				oo := o.([]interface{})
				p, _ := strconv.Atoi(string(oo[0].(json.Number)))
				i, _ := strconv.Atoi(string(oo[1].(json.Number)))
				pos[[2]int{p, i}] = k
			}
			calls := map[int][]regCall{}
			var cmu sync.Mutex
			var wg sync.WaitGroup
			for pi, pr := range procs {
				wg.Add(1)
				go func(p int, ops []interface{}) {
					defer wg.Done()
					g := goid()
					for i, o := range ops {
						k := pos[[2]int{p, i + 1}]
						<-turn[k]
						c := doRegOp(o.(map[string]interface{}), prefix)
						cmu.Lock()
						calls[g] = append(calls[g], c)
						cmu.Unlock()
						close(turn[k+1])
					}
				}(pi+1, pr.([]interface{}))
			}
			close(turn[0])
			wg.Wait()
			flush(scen, calls)
		case sc["stress"] != nil:
			st := opMap(sc, "stress")
			G, N := opInt(st, "g"), opInt(st, "n")
			seed := int64(opInt(st, "seed"))
			calls := map[int][]regCall{}
			var cmu sync.Mutex
			var wg sync.WaitGroup
			start := make(chan struct{})
			for p := 0; p < G; p++ {
				wg.Add(1)
				go func(p int) {
					defer wg.Done()
					rng := rand.New(rand.NewSource(seed*1000 + int64(p)))
					g := goid()
					var mine []regCall
					<-start
					for i := 0; i < N; i++ {
						name := fmt.Sprintf("n%d", rng.Intn(4))
						var op M
						switch r := rng.Intn(10); {
						case r < 3:
							op = M{"op": "register", "name": name, "d": fmt.Sprintf("p%d_%d", p, i)}
						case r < 7:
							op = M{"op": "named", "name": name}
						case r < 8:
							auto.ListStyles() // (its result is checked once the run is quiescent, below)
							mine = append(mine, regCall{ev: "list", skip: true})
							continue
						default:
							op = M{"op": "list"}
						}
						mine = append(mine, doRegOp(op, prefix))
						if rng.Intn(4) == 0 {
							runtime.Gosched()
						}
					}
					cmu.Lock()
					calls[g] = mine
					cmu.Unlock()
				}(p)
			}
			close(start)
			wg.Wait()
			flush(scen, calls)
			// quiescent: the style listing must now show every registered name
			ls := auto.ListStyles()
			rec.mu.Lock()
			rec.events = nil // (the listing's own hook event)
			rec.mu.Unlock()
			il := make([]interface{}, len(ls))
			for i, x := range ls {
				il[i] = x
			}
			writeLine(out, M{"ev": "styles", "scen": scen, "res": il, "sorted": b2i(sort.StringsAreSorted(ls))})
		case sc["probe"] != nil:
			// A is held inside its critical section; B must neither reach its own
			// critical section nor return until A is released.
			for _, aop := range []M{{"op": "register", "name": "pa", "d": "pa"}, {"op": "named", "name": "pa"}, {"op": "list"}} {
				for _, bop := range []M{{"op": "register", "name": "pb", "d": "pb"}, {"op": "named", "name": "pa"}, {"op": "list"}} {
					calls := map[int][]regCall{}
					var cmu sync.Mutex
					release := make(chan struct{})
					aReady := make(chan int, 1)
					aDone := make(chan struct{})
					go func() {
						g := goid()
						rec.mu.Lock()
						rec.hold[g] = release
						rec.mu.Unlock()
						aReady <- g
						c := doRegOp(aop, prefix)
						cmu.Lock()
						calls[g] = append(calls[g], c)
						cmu.Unlock()
						close(aDone)
					}()
					ga := <-aReady
					<-rec.held // A is now inside its critical section
					bDone := make(chan struct{})
					go func() {
						g := goid()
						c := doRegOp(bop, prefix)
						cmu.Lock()
						calls[g] = append(calls[g], c)
						cmu.Unlock()
						close(bDone)
					}()
					blocked := 1
					select {
					case <-bDone:
						blocked = 0
					case <-time.After(40 * time.Millisecond):
					}
					rec.mu.Lock()
					delete(rec.hold, ga)
					rec.mu.Unlock()
					close(release)
					<-aDone
					<-bDone
					// a registration excludes every other operation; two reads may overlap
					must := b2i(aop["op"] == "register" || bop["op"] == "register")
					writeLine(out, M{"ev": "probe", "scen": scen, "a": aop["op"], "b": bop["op"], "blocked": blocked, "must": must})
					flush(scen, calls)
				}
			}
		default:
			derr("registry mode: unknown line")
		}
	}
	fmt.Fprintf(os.Stderr, "vdrive: {\"scenarios\": %d, \"ops\": %d}\n", n, rec.seq)
}
