----------------------------- MODULE MCMetrics -----------------------------
(***************************************************************************)
(* C18, bounded model: every token string of length <= MaxLen over         *)
(* {line feed, narrow chunk, wide chunk, empty chunk}.  Model level: the   *)
(* cell's independently coded height rule agrees with the line splitter.   *)
(* Every string is also written out as a one-step scenario ("measure").    *)
(***************************************************************************)
EXTENDS TabularRender, Json, CSV
CONSTANTS MaxLen, GenFile
VARIABLES parts, done
vars == <<parts, done>>

Tokens == {NL, "a", "W", ""}

Init == parts = <<>> /\ done = FALSE
Next == /\ ~done
        /\ \/ /\ Len(parts) < MaxLen
              /\ \E t \in Tokens : parts' = Append(parts, t)
              /\ done' = FALSE
           \/ /\ done' = TRUE /\ parts' = parts     \* "measure this string"
Spec == Init /\ [][Next]_vars
View == <<parts, done>>

Emit == GenFile = "" \/ ~done' \/ CSVWrite("%1$s", <<ToJson(<<[op |-> "measure", parts |-> parts']>>)>>, GenFile)

Inv == Inv_C18_Model(parts)
=============================================================================
