HOOKS = {
    "guard": "verif",
    "enable": "go build -tags verif (bin/check builds harness/cmd/vdrive with -tags verif against /repo's working tree)",
    "baseline_off_cmd": "cd /repo && GOFLAGS=-mod=mod GOPROXY=off GOSUMDB=off go test -vet=off -count=1 ./...",
    "source_commits": [],
    "add_only": True,
}
NOTES = ("All checks: bin/check <id> --tier quick|thorough; exit 0 held / 1 VIOLATION / 2 machinery failure (no verdict). "
         "Verdicts come only from trace validation of the real library's behaviour against spec/*.tla; see DESIGN.md.")
MBT = "TLA+ spec + TLC model checking; TLC-generated and random scenarios replayed on the real code; TLC trace validation"
CHECKS = {
    "C02": {
        "text": "Exhaustive TLC exploration of all build histories within small bounds (every interleaving of the table-building calls) checks the declarative count/order/addressing invariants on the specification; every transition of that bounded model, plus seeded long random histories (wide tables, two tables), is executed on the real library and the full grid projection (counts, row order/identity, every location, CellAt over a frame larger than the table, Column(n) nil-ness, AllRows-copy scramble) is validated by TLC against the specification after the last step (after every step for the random ones).",
        "note": "Trusted: the Go driver's public-API projection (harness/cmd/vdrive/obs.go), TLC, the reading of header replacement in DESIGN 4.5. Bounded: histories beyond the bounds are sampled, not enumerated.",
        "technique": MBT,
    },
}
CHECKS["C18"] = {
    "text": "The line splitter and the cell's independently coded height rule are transcribed into TLA+ over token strings; TLC checks exhaustively (all token strings up to a bound over {line feed, narrow, wide, empty chunk}) that the two computations agree, and every such string (literally, and with each chunk consistently replaced by rich Unicode chunks) plus seeded random longer strings is measured by the real library; TLC validates every relation of the statement (split loses only line breaks and at most one trailing newline, longest = max per line, runes <= bytes, cells <= 2 runes, cell height = line count, cell width = widest line) on the logged numbers.",
    "note": "Trusted: the driver's tokenisation, TLC. Display width itself is the library's measure by the statement, so the Unicode width tables are not modelled. Strings beyond the bound are sampled.",
    "technique": MBT,
}
CHECKS["C01"] = {
    "text": "The text-form dispatch (string, rune, String > GoString > Error > %v, nested cell, nil), the empty flag and the snapshot/Update state machine are a TLA+ model; TLC enumerates every item kind and all 32 capability combinations with distinct payloads, each followed by mutation and Update in every order, checks the precedence implications and that mutation alone never changes the text, and every transition is executed on the real library (one concrete Go type per capability set) literally and under rich-string substitution, plus seeded random item sequences; TLC validates text, emptiness and item identity of every cell.",
    "note": "Trusted: the generated Go item types (items_gen.go), the static capability table for pool values, fmt's %v as oracle of the last arm. The space of dynamic types is infinite; the dispatch depends only on (kind, capability set), which is enumerated completely.",
    "technique": MBT,
}
CHECKS["C11"] = {
    "text": "Error routing (row's own list before attach, table's list after; misuse; callback failures at add and render time; raw containers of the three kinds with AddError/AddErrorList over nil/empty/mixed/aliased lists) is part of the TLA+ table model; TLC explores all container-operation sequences and all table histories with a failing callback at every level within the bounds, checking exactly-once / append-only invariants on the model; every transition and seeded random longer histories are executed on the real library and TLC validates every error list (same multiset, per-source order, nil iff empty, no nil entries, no panic) against the model.",
    "note": "Trusted: unique error identities created by the driver; errors the library creates itself are compared as the token LIB. Order is demanded only within one source, as the statement says.",
    "technique": MBT,
}
NOT_APPLICABLE = {}
