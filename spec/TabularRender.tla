--------------------------- MODULE TabularRender ---------------------------
(***************************************************************************)
(* Wrappers and renderers layered on the core table model: the full Apply, *)
(* and the relations between a render call's logged result and what the    *)
(* properties allow (C03-C10, C14).                                        *)
(***************************************************************************)
EXTENDS Tabular

Apply(st, op, fired) == ApplyCore(st, op, fired)

BadResMore(s, ns, op, res) == {}

\* result of the call itself (op-specific observations): the set of failing parts
BadRes(s, ns, op, res) ==
  {f \in {"res.panic", "res.regerr", "res.setprop", "res.metrics", "res.cblog"} :
     CASE f = "res.panic"   -> "panic" \in DOMAIN res
       [] f = "res.regerr"  -> op.op = "regcb" /\ "regerr" \in DOMAIN res /\ res.regerr # (IF RegOk(op) THEN 0 ELSE 1)
       [] f = "res.setprop" -> op.op = "setprop" /\ "err" \in DOMAIN res /\ res.err # 0
       [] f = "res.metrics" -> op.op = "measure" /\ "metrics" \in DOMAIN res /\ ~AgreeMetrics(op.parts, res.metrics)
       [] f = "res.cblog"   -> "cblog" \in DOMAIN res /\ ~AgreeCbLog(s, SlotsOf(s, op), res.cblog)}
  \cup BadResMore(s, ns, op, res)

\* re-setting keys must not grow an owner's stored state: the chain of a cell is
\* never longer than its keys (plus the renderers' private measuring keys)
AgreeChain(ns, chain) ==
  \A i \in DOMAIN chain :
    LET e == chain[i] IN
      e[4] <= Cardinality(DOMAIN PropsOf(ns, e[1], e[2], e[3])) + (IF Len(ns.wr) > 0 THEN 3 ELSE 0)

AgreeMore(s, ns, op, f, v) == TRUE
ExplainMore(ns, op, f) == ""
=============================================================================
