--------------------------- MODULE TabularRender ---------------------------
(***************************************************************************)
(* Wrappers and renderers layered on the core table model: the full Apply, *)
(* and the relations between a render call's logged result and what the    *)
(* properties allow (C03-C10, C14, C15).                                   *)
(*                                                                         *)
(* Each renderer has a declarative part (what a correct output is, at the  *)
(* level the property fixes it) used as the oracle of trace validation,    *)
(* and an implementation-shaped emitter (the code's write sequence) used   *)
(* by the bounded models (Writer faults, JSON comma machine).              *)
(***************************************************************************)
EXTENDS Tabular

-----------------------------------------------------------------------------
(* String helpers (TLC strings support Len, \o, SubSeq and =) *)

RECURSIVE Rep(_, _)
Rep(s, n) == IF n <= 0 THEN "" ELSE s \o Rep(s, n - 1)
Spaces(n) == Rep(" ", n)
StartsWith(s, p) == Len(s) >= Len(p) /\ SubSeq(s, 1, Len(p)) = p
Drop(s, n) == SubSeq(s, n + 1, Len(s))

RECURSIVE SumSeq(_)
SumSeq(s) == IF s = <<>> THEN 0 ELSE Head(s) + SumSeq(Tail(s))

-----------------------------------------------------------------------------
(* Wrappers *)
(*                                                                         *)
(* A wrapper record: [kind, over (core table id), dec (decoration as       *)
(* logged: boxless, empty, g = glyph per drawing field), html options].    *)

DefaultDec == [boxless |-> 0, empty |-> 0,
               g |-> [CrossPiece |-> "+", HOuter |-> "=", HRule |-> "-", VHeader |-> "#", VBodyBorder |-> "#",
                      VBodyInner |-> "|", TopLeft |-> "+", TopRight |-> "+", BottomLeft |-> "+", BottomRight |-> "+",
                      LeftBodyRule |-> "+", RightBodyRule |-> "+", HTopDown |-> "+", BTopDown |-> "+", BBottomUp |-> "+",
                      HBCross |-> "+", HBLeft |-> "+", HBRight |-> "+"]]

DecOf(op) == IF "dec" \in DOMAIN op THEN op.dec ELSE DefaultDec

NoHtml == [id |-> "", class |-> "", caption |-> "", gen |-> 0, genvals |-> <<>>]

KindOfVia(via) == CASE via = "texttable" -> "text" [] via = "markdown" -> "md" [] OTHER -> via

NewWrapper(kind, over, dec) == [kind |-> kind, over |-> over, dec |-> dec, html |-> NoHtml]

DoNewTableW(st, op) ==
  LET s1 == DoNewTable(st, op) IN
  IF op.via = "core" THEN s1
  ELSE [s1 EXCEPT !.wr = Append(@, NewWrapper(IF "rkind" \in DOMAIN op THEN op.rkind ELSE KindOfVia(op.via),
                                              Len(s1.tbl), DecOf(op)))]

OverTable(st, o) == IF "w" \in DOMAIN o THEN st.wr[o.w].over ELSE o.t

DoWrap(st, op) ==
  [st EXCEPT !.wr = Append(@, NewWrapper(IF "rkind" \in DOMAIN op THEN op.rkind ELSE op.kind,
                                         OverTable(st, op.over), DecOf(op)))]

DoDecor(st, op) == [st EXCEPT !.wr[op.w].dec = DecOf(op)]

DoHtmlOpts(st, op) ==
  [st EXCEPT !.wr[op.w].html = [id |-> op.id, class |-> op.class, caption |-> op.caption,
                                gen |-> op.gen, genvals |-> op.genvals]]

\* the core table a render call works on, its format, decoration and html options
RenderTbl(st, op) == IF "w" \in DOMAIN op THEN st.wr[op.w].over
                     ELSE IF "ow" \in DOMAIN op THEN st.wr[op.ow].over ELSE op.t
RenderKind(st, op) == IF "w" \in DOMAIN op THEN st.wr[op.w].kind
                      ELSE IF "pkg" \in DOMAIN op THEN op.pkg ELSE op.rkind
RenderDec(st, op) == IF "w" \in DOMAIN op THEN st.wr[op.w].dec ELSE DecOf(op)
RenderHtml(st, op) == IF "w" \in DOMAIN op THEN st.wr[op.w].html ELSE NoHtml

\* a render runs one pass of render-time callbacks on the core table
DoRender(st, op, fired) == Fire(st, RenderTbl(st, op), 0, fired)

SlotsOfAll(st, op) ==
  IF op.op \in {"render", "renderfault"} THEN SlotsRenderPass(st, RenderTbl(st, op)) ELSE SlotsOf(st, op)

Apply(st, op, fired) ==
  CASE op.op = "newtable" -> DoNewTableW(st, op)
    [] op.op = "wrap"     -> DoWrap(st, op)
    [] op.op = "decor"    -> DoDecor(st, op)
    [] op.op = "htmlopts" -> DoHtmlOpts(st, op)
    [] op.op = "render"   -> DoRender(st, op, fired)
    [] OTHER -> ApplyCore(st, op, fired)

-----------------------------------------------------------------------------
(* Text table layout (C03, C04) *)

AlignOf(v) == CASE v = "vL" -> "left" [] v = "vR" -> "right" [] v = "vC" -> "centre" [] OTHER -> "unset"

\* effective alignment of column i: own setting, else the column-0 default, else left
EffAlign(T, i) ==
  LET own == AlignOf(MapGet(T.cols[i + 1].props, "k_align"))
      def == AlignOf(MapGet(T.cols[1].props, "k_align"))
  IN IF own # "unset" THEN own ELSE IF def # "unset" THEN def ELSE "left"

\* number of slot lines a cell occupies: its text lines, or its (declared) height if larger
CellSlots(c) == Max2(Len(c.lines), CellHeight(c))

\* display width used to lay out line j of a cell: a single-line item that declares
\* its width is laid out as exactly that wide; otherwise the line's own measure
LineW(c, j) == IF Len(c.lines) = 1 /\ HasCap(c.snap, "Width") THEN CellWidth(c) ELSE c.lines[j][2]

ColW(st, T, i) ==
  SetMax({0}
    \cup (IF T.hdrp /\ i <= Len(T.hdr) THEN {CellWidth(T.hdr[i])} ELSE {})
    \cup {CellWidth(st.row[r].cells[i]) : r \in {x \in Range(T.rows) : i <= Len(st.row[x].cells)}})

RowH(cells, n) == SetMax({1} \cup {CellSlots(cells[i]) : i \in 1..Min2(Len(cells), n)})

Pad(s, w, colw, al) ==
  LET p == Max2(colw - w, 0) IN
  CASE al = "left"   -> s \o Spaces(p)
    [] al = "right"  -> Spaces(p) \o s
    [] al = "centre" -> Spaces(p \div 2) \o s \o Spaces(p - (p \div 2))

\* the padded slot of column i on line j of a row (cells = the row's cells)
SlotStr(st, T, cells, i, j) ==
  IF i > Len(cells) \/ j > Len(cells[i].lines) THEN Spaces(ColW(st, T, i))
  ELSE Pad(cells[i].lines[j][1], LineW(cells[i], j), ColW(st, T, i), EffAlign(T, i))

\* line kinds of the whole output: <<"rule">> or <<"content", cells, j>>
TextKinds(st, T, boxless) ==
  LET n == T.ncols
      content(cells) == [j \in 1..RowH(cells, n) |-> <<"content", cells, j>>]
      rule == IF boxless THEN <<>> ELSE << <<"rule">> >>
  IN rule
     \o (IF T.hdrp THEN content(T.hdr) \o rule ELSE <<>>)
     \o Flatten([k \in 1..Len(T.rows) |->
          IF st.row[T.rows[k]].sep THEN rule ELSE content(st.row[T.rows[k]].cells)])
     \o rule

\* pieces of a line: "g" = any glyph of the decoration; "s" = literal string;
\* "h" = n copies of one glyph
RECURSIVE MatchPieces(_, _, _)
MatchPieces(s, ps, G) ==
  IF ps = <<>> THEN s = ""
  ELSE LET p == Head(ps) IN
    CASE p[1] = "s" -> StartsWith(s, p[2]) /\ MatchPieces(Drop(s, Len(p[2])), Tail(ps), G)
      [] p[1] = "g" -> \E g \in G : StartsWith(s, g) /\ MatchPieces(Drop(s, Len(g)), Tail(ps), G)
      [] p[1] = "h" -> \E g \in G : LET r == Rep(g, p[2]) IN
                          StartsWith(s, r) /\ MatchPieces(Drop(s, Len(r)), Tail(ps), G)

ContentPieces(st, T, cells, j, boxless) ==
  LET n == T.ncols IN
  IF boxless
  THEN Flatten([i \in 1..n |-> (IF i > 1 THEN << <<"s", " ">> >> ELSE <<>>) \o << <<"s", SlotStr(st, T, cells, i, j)>> >>])
  ELSE << <<"g">> >> \o Flatten([i \in 1..n |-> << <<"s", " " \o SlotStr(st, T, cells, i, j) \o " ">>, <<"g">> >>])

RulePieces(st, T) ==
  << <<"g">> >> \o Flatten([i \in 1..T.ncols |-> << <<"h", ColW(st, T, i) + 2>>, <<"g">> >>])

\* display width every line must have (by the library's own measure): dividers and
\* padding plus the column widths; a slot holding a width-declaring single-line item
\* measures as its text does, not as declared
SlotMeasured(st, T, cells, i, j) ==
  IF i > Len(cells) \/ j > Len(cells[i].lines) THEN ColW(st, T, i)
  ELSE cells[i].lines[j][2] + Max2(ColW(st, T, i) - LineW(cells[i], j), 0)

LineWidth(st, T, k, boxless) ==
  LET n == T.ncols
      cols == IF k[1] = "rule" THEN [i \in 1..n |-> ColW(st, T, i)]
              ELSE [i \in 1..n |-> SlotMeasured(st, T, k[2], i, k[3])]
  IN IF boxless THEN SumSeq(cols) + (n - 1) ELSE SumSeq(cols) + 3 * n + 1

GlyphSet(dec) == {dec.g[f] : f \in DOMAIN dec.g} \ {""}

\* which clause fails for which line (for the report); {} = the output is right
TextBad(st, t, dec, res) ==
  LET T == st.tbl[t]
      boxless == dec.boxless = 1
      kinds == TextKinds(st, T, boxless)
      L == res.lines.l
      G == GlyphSet(dec)
  IN IF res.lines.rest # "" THEN {<<"no final newline">>}
     ELSE IF Len(L) # Len(kinds) THEN {<<"line count", Len(kinds), Len(L)>>}
     ELSE {<<"line", i, kinds[i][1]>> : i \in {k \in DOMAIN L :
              \/ ~MatchPieces(L[k][1],
                              IF kinds[k][1] = "rule" THEN RulePieces(st, T)
                              ELSE ContentPieces(st, T, kinds[k][2], kinds[k][3], boxless), G)
              \/ L[k][2] # LineWidth(st, T, kinds[k], boxless)}}

\* a complete decoration: boxless, or every drawing glyph present
DecComplete(dec) == dec.boxless = 1 \/ \A f \in DOMAIN dec.g : dec.g[f] # ""

-----------------------------------------------------------------------------
(* Implementation-shaped text emitter (texttable/render.go, decoration/emit.go): *)
(* the two passes of the code, producing the lines it writes.  The bounded      *)
(* models check that what this emitter produces satisfies the declarative      *)
(* relation above (TextBad = {}), so that the two halves of the specification   *)
(* keep each other honest.                                                     *)

\* pass 1 (the measuring callback): per cell the width and the line array
ImplLinesWidths(c) ==
  [j \in 1..CellSlots(c) |->
     IF j <= Len(c.lines)
     THEN <<c.lines[j][1], IF Len(c.lines) = 1 THEN CellWidth(c) ELSE c.lines[j][2], c.lines[j][2]>>
     ELSE <<"", 0, 0>>]

ImplRowLines(cells, n) ==
  LET mx == Min2(Len(cells), n)
      cols == [i \in 1..mx |-> ImplLinesWidths(cells[i])]
      cnt == SetMax({1} \cup {Len(cols[i]) : i \in 1..mx})
  IN [l \in 1..cnt |-> [i \in 1..n |-> IF i <= mx /\ l <= Len(cols[i]) THEN cols[i][l] ELSE <<"", 0, 0>>]]

ImplTemplate(dec, left, horiz, cross, right, widths) ==
  IF dec.boxless = 1 THEN <<>>
  ELSE LET n == Len(widths)
           body == IF n = 0 THEN ""
                   ELSE LET RECURSIVE Go(_)
                            Go(i) == IF i > n THEN ""
                                     ELSE Rep(horiz, widths[i] + 2) \o (IF i < n THEN cross ELSE "") \o Go(i + 1)
                        IN Go(1)
       IN << <<left \o body \o right, 1 + SumSeq(widths) + 2 * n + Max2(n - 1, 0) + 1>> >>

ImplContentLine(dec, dl, di, dr, parts, widths, aligns) ==
  LET n == Len(widths)
      slot(i) == Pad(parts[i][1], parts[i][2], widths[i], aligns[i])
      slotw(i) == parts[i][3] + Max2(widths[i] - parts[i][2], 0)
      RECURSIVE Go(_)
      Go(i) == IF i > n THEN ""
               ELSE (IF dec.boxless = 1 THEN (IF i > 1 THEN " " ELSE "") \o slot(i)
                     ELSE " " \o slot(i) \o " " \o (IF i < n THEN di ELSE dr)) \o Go(i + 1)
  IN << <<(IF dec.boxless = 1 THEN "" ELSE dl) \o Go(1),
          SumSeq([i \in 1..n |-> slotw(i)]) + (IF dec.boxless = 1 THEN n - 1 ELSE 3 * n + 1)>> >>

EmitText(st, t, dec) ==
  LET T == st.tbl[t]
      n == T.ncols
      g == dec.g
      widths == [i \in 1..n |-> ColW(st, T, i)]
      aligns == [i \in 1..n |-> EffAlign(T, i)]
      rowlines(cells, dl, di, dr) ==
        Flatten([l \in 1..Len(ImplRowLines(cells, n)) |->
                   ImplContentLine(dec, dl, di, dr, ImplRowLines(cells, n)[l], widths, aligns)])
  IN (IF T.hdrp
      THEN ImplTemplate(dec, g.TopLeft, g.HOuter, g.HTopDown, g.TopRight, widths)
           \o rowlines(T.hdr, g.VHeader, g.VHeader, g.VHeader)
           \o ImplTemplate(dec, g.HBLeft, g.HOuter, g.HBCross, g.HBRight, widths)
      ELSE ImplTemplate(dec, g.TopLeft, g.HOuter, g.BTopDown, g.TopRight, widths))
     \o Flatten([k \in 1..Len(T.rows) |->
           IF st.row[T.rows[k]].sep
           THEN ImplTemplate(dec, g.LeftBodyRule, g.HRule, g.CrossPiece, g.RightBodyRule, widths)
           ELSE rowlines(st.row[T.rows[k]].cells, g.VBodyBorder, g.VBodyInner, g.VBodyBorder)])
     \o ImplTemplate(dec, g.BottomLeft, g.HOuter, g.BBottomUp, g.BottomRight, widths)

\* model-level refinement check: the emitter's output is a correct text table
EmitTextOK(st, t, dec) ==
  st.tbl[t].ncols = 0 \/ TextBad(st, t, dec, [lines |-> [l |-> EmitText(st, t, dec), rest |-> ""]]) = {}

-----------------------------------------------------------------------------
(* Results of calls *)

RenderBad(s, ns, op, res) ==
  LET t == RenderTbl(s, op)
      kind == RenderKind(s, op)
      T == ns.tbl[t]
  IN IF "status" \notin DOMAIN res THEN {}
     ELSE IF res.status = "panic" THEN {}     \* reported as res.panic
     ELSE IF res.status = "error" /\ res.entry = "Render" /\ res.empty # 1 THEN {"out.errtext"}
     ELSE IF kind = "text" THEN
        (IF RenderDec(s, op).empty = 1
         THEN (IF res.status # "error" THEN {"out.text"} ELSE {})         \* C17: fails closed
         ELSE IF res.status # "ok" THEN {"out.text"}
         ELSE IF T.ncols = 0 THEN {}
         ELSE IF TextBad(ns, t, RenderDec(s, op), res) # {} THEN {"out.text"} ELSE {})
     ELSE {}

BadResMore(s, ns, op, res) ==
  IF op.op = "render" THEN RenderBad(s, ns, op, res) ELSE {}

\* result of the call itself (op-specific observations): the set of failing parts
BadRes(s, ns, op, res) ==
  {f \in {"res.panic", "res.regerr", "res.setprop", "res.metrics", "res.cblog"} :
     CASE f = "res.panic"   -> "panic" \in DOMAIN res
       [] f = "res.regerr"  -> op.op = "regcb" /\ "regerr" \in DOMAIN res /\ res.regerr # (IF RegOk(op) THEN 0 ELSE 1)
       [] f = "res.setprop" -> op.op = "setprop" /\ "err" \in DOMAIN res /\ res.err # 0
       [] f = "res.metrics" -> op.op = "measure" /\ "metrics" \in DOMAIN res /\ ~AgreeMetrics(op.parts, res.metrics)
       [] f = "res.cblog"   -> "cblog" \in DOMAIN res /\ ~AgreeCbLog(s, SlotsOfAll(s, op), res.cblog)}
  \cup BadResMore(s, ns, op, res)

\* re-setting keys must not grow an owner's stored state: the chain of a cell is
\* never longer than its keys (plus the renderers' private measuring keys)
AgreeChain(ns, chain) ==
  \A i \in DOMAIN chain :
    LET e == chain[i] IN
      e[4] <= Cardinality(DOMAIN PropsOf(ns, e[1], e[2], e[3])) + (IF Len(ns.wr) > 0 THEN 3 ELSE 0)

AgreeMore(s, ns, op, f, v) == TRUE

ExplainMore(s, ns, op, f, res) ==
  IF f = "out.text" /\ res.status = "ok" /\ RenderDec(s, op).empty = 0 /\ ns.tbl[RenderTbl(s, op)].ncols > 0
  THEN TextBad(ns, RenderTbl(s, op), RenderDec(s, op), res) ELSE {}
=============================================================================
