package main

import (
	"encoding/json"
	"fmt"
	"math"
	"reflect"
	"strings"
	"unicode/utf8"

	"go.pennock.tech/tabular"
	"go.pennock.tech/tabular/length"
)

// Item descriptors (the "item" records of the specification):
//   {"k":"str","s":...}            the built-in string type
//   {"k":"rune","s":"x"}           the built-in rune type (s holds the one character)
//   {"k":"nil"}
//   {"k":"obj","caps":[...],"strv","gov","errv","h","w"}   pointer to a generated type
//        whose method set is exactly caps ⊆ {String,GoString,Error,Height,Width}
//   {"k":"cell","inner":Item}      a tabular.Cell value holding inner
//   {"k":"cellptr","inner":Item}   a *tabular.Cell pointing at a cell holding inner
//   {"k":"other","which":name}     a value from the fixed pool below
//
// The driver augments each descriptor in place (so the trace carries it):
//   fmtv  fmt.Sprintf("%v", x)             (the statement's oracle for the last arm)
//   enc   string(json.Marshal(x)) or "!ERR" (the statement's oracle for JSON values)
//   tx    {component: [[line, cells]...]}   the driver's own split of each text
//         component and the library's width measure of each line

type namedString string
type plainStruct struct {
	A int
	B string
}
type hiddenStruct struct{ a int }
type stringerHidden struct{ s string }

func (s stringerHidden) String() string { return s.s }

// valSlice is a struct VALUE that shares state with whoever built it (the slice's backing array): an item that
// changes behind the cell's back although it is no pointer (C01: Update re-reads it).
type valSlice struct{ Tags []string }

type marshaler struct{ v string }

func (m marshaler) MarshalJSON() ([]byte, error) { return json.Marshal(M{"m": m.v}) }

func otherValue(which string) interface{} {
	if strings.HasPrefix(which, "valslice:") {
		return valSlice{Tags: strings.Split(strings.TrimPrefix(which, "valslice:"), ",")}
	}
	switch which {
	case "int42":
		return 42
	case "int0":
		return 0
	case "negint":
		return -7
	case "int64big":
		return int64(9007199254740993)
	case "uint8":
		return uint8(200)
	case "float":
		return 3.25
	case "floatexp":
		return 1e21
	case "nan":
		return math.NaN()
	case "inf":
		return math.Inf(-1)
	case "float32":
		return float32(0.1) // (its text is "0.1": formatting it as a float64 shows the widening error)
	case "float32b":
		return float32(16777217.0 / 3)
	case "true":
		return true
	case "false":
		return false
	case "named":
		return namedString("named\nstring")
	case "namedempty":
		return namedString("")
	case "bytes":
		return []byte("hi")
	case "struct":
		return plainStruct{1, "b"}
	case "structptr":
		return &plainStruct{2, "c"}
	case "hidden":
		return hiddenStruct{3}
	case "strhidden":
		return stringerHidden{"shown text"}
	case "strhiddenempty":
		return stringerHidden{""}
	case "map":
		return map[string]int{"a": 1, "b": 2}
	case "emptymap":
		return map[string]int{}
	case "slice":
		return []int{1, 2, 3}
	case "emptyslice":
		return []string{}
	case "marshaler":
		return marshaler{"x<y"}
	case "chan":
		return make(chan int)
	case "nilptr":
		return (*plainStruct)(nil)
	case "complex":
		return complex(1, 2)
	case "error":
		return fmt.Errorf("plain %s", "error")
	}
	derr("unknown other item %q", which)
	return nil
}

var capBits = map[string]int{"String": 1, "GoString": 2, "Error": 4, "Height": 8, "Width": 16}

func payloadOf(d M) *payload {
	p := &payload{
		Strv: itemStr(d, "strv"), Gov: itemStr(d, "gov"), Errv: itemStr(d, "errv"),
		H: opIntDef(d, "h", 0), W: opIntDef(d, "w", 0), Tag: "t",
	}
	// the extreme of "declared size disagrees with the text" (TLC's integers are 32 bits wide, so the
	// value travels as a flag)
	if opIntDef(d, "hmax", 0) == 1 {
		p.H = math.MaxInt
	}
	if opIntDef(d, "wmax", 0) == 1 {
		p.W = math.MaxInt
	}
	return p
}

func capMask(d M) int {
	mask := 0
	for _, c := range opList(d, "caps") {
		b, ok := capBits[c.(string)]
		if !ok {
			derr("unknown cap %v", c)
		}
		mask |= b
	}
	return mask
}

// mkItem builds the concrete Go value for a descriptor and augments the descriptor.
// bytesMode: every item string of the scenario is an arbitrary byte string in
// Latin-1 transport (one rune per byte); used by the CSV family.
var bytesMode bool

func itemStr(d M, k string) string {
	if bytesMode {
		return unlatin1(opStrDef(d, k, ""))
	}
	return opStrDef(d, k, "")
}

func (w *world) mkItem(d M) interface{} {
	var x interface{}
	switch opStr(d, "k") {
	case "str":
		x = itemStr(d, "s")
	case "rune":
		r, _ := utf8.DecodeRuneInString(opStr(d, "s")) // (a rune item is text, never a byte string)
		x = r
		if bytesMode {
			d["s"] = latin1(string(r)) // the text the cell shows, in the byte-string transport of this mode
		}
	case "nil":
		x = nil
	case "obj":
		x = newObj(capMask(d), payloadOf(d))
	case "cell":
		inner := w.mkItem(opMap(d, "inner"))
		x = tabular.NewCell(inner)
	case "cellptr":
		inner := w.mkItem(opMap(d, "inner"))
		c := tabular.NewCell(inner)
		x = &c
	case "other":
		x = otherValue(opStr(d, "which"))
	default:
		derr("unknown item kind %v", d["k"])
	}
	augmentItem(d, x)
	w.items = append(w.items, x)
	return x
}

func (w *world) mkItems(ds []interface{}) []interface{} {
	out := make([]interface{}, len(ds))
	for i, d := range ds {
		out[i] = w.mkItem(d.(map[string]interface{}))
	}
	return out
}

// splitLines is the driver's own line split: at "\n", dropping one trailing
// empty segment. (Trusted ten-liner; C18 checks the library against the
// specification's independent split.)
func splitLines(s string) []string {
	var out []string
	start := 0
	for i := 0; i < len(s); i++ {
		if s[i] == '\n' {
			out = append(out, s[start:i])
			start = i + 1
		}
	}
	out = append(out, s[start:])
	if out[len(out)-1] == "" {
		out = out[:len(out)-1]
	}
	return out
}

func linesWidths(s string) []interface{} {
	ls := splitLines(s)
	out := make([]interface{}, 0, len(ls))
	for _, l := range ls {
		// third element: is the library's measure additive for this line between spaces?  (Some runes --
		// combining marks with a width of their own, emoji modifiers, prepended format characters -- attach
		// to a neighbouring space, so that the measure of a whole output line is not the sum of its slots.)
		w := length.StringCells(l)
		safe := b2i(length.StringCells(" "+l+" ") == w+2)
		out = append(out, []interface{}{l, w, safe})
	}
	return out
}

// otherCaps declares, for the fixed pool of "other" items, which of the text-form
// methods the value's type offers and what they return (a static table: the
// driver's declared oracle, independent of the library's type switch).
func otherCaps(which string) (caps []interface{}, strv, gov, errv string) {
	caps = []interface{}{}
	switch which {
	case "strhidden":
		return []interface{}{"String"}, "shown text", "", ""
	case "strhiddenempty":
		return []interface{}{"String"}, "", "", ""
	case "error":
		return []interface{}{"Error"}, "", "", "plain error"
	}
	return caps, "", "", ""
}

func jsonOfString(s string) string {
	b, err := json.Marshal(s)
	if err != nil {
		return "!ERR"
	}
	return canonJSON(b)
}

func augmentItem(d M, x interface{}) {
	tx := M{}
	defer func() {
		// txe: canonical JSON encoding of every text component (C07 fallback-to-text rule)
		txe := M{}
		for _, c := range []string{"s", "strv", "gov", "errv", "fmtv"} {
			if v, ok := d[c].(string); ok {
				txe[c] = jsonOfString(v)
			}
		}
		d["txe"] = txe
	}()
	if d["k"] == "other" {
		caps, strv, gov, errv := otherCaps(opStr(d, "which"))
		d["caps"], d["strv"], d["gov"], d["errv"], d["h"], d["w"] = caps, strv, gov, errv, 0, 0
		for _, c := range []string{"strv", "gov", "errv"} {
			tx[c] = linesWidths(opStr(d, c))
		}
	}
	switch d["k"] {
	case "str", "rune":
		tx["s"] = linesWidths(opStr(d, "s"))
	case "obj":
		for _, c := range []string{"strv", "gov", "errv"} {
			if _, ok := d[c]; !ok {
				d[c] = ""
			}
			tx[c] = linesWidths(opStr(d, c))
		}
		if _, ok := d["h"]; !ok {
			d["h"] = 0
		}
		if _, ok := d["w"]; !ok {
			d["w"] = 0
		}
	}
	if d["k"] == "obj" || d["k"] == "other" {
		f := fmt.Sprintf("%v", x)
		if bytesMode {
			f = latin1(f) // byte-string transport
		}
		d["fmtv"] = f
		tx["fmtv"] = linesWidths(f)
	}
	d["tx"] = tx
	if d["k"] != "cell" && d["k"] != "cellptr" {
		b, err := json.Marshal(x)
		if err != nil {
			d["enc"] = "!ERR"
		} else {
			d["enc"] = canonJSON(b)
		}
	} else {
		// encoding/json sees a Cell (a struct without exported fields)
		d["enc"] = "{}"
	}
}

// sameItem reports whether the library handed back the item it was given.
func sameItem(a, b interface{}) bool {
	if a == nil || b == nil {
		return a == nil && b == nil
	}
	ta, tb := reflect.TypeOf(a), reflect.TypeOf(b)
	if ta != tb {
		return false
	}
	if ta.Comparable() {
		if f, ok := a.(float64); ok && math.IsNaN(f) {
			return math.IsNaN(b.(float64))
		}
		if ca, ok := a.(tabular.Cell); ok {
			// a Cell stored as an item: the same item inside
			return sameItem(ca.Item(), b.(tabular.Cell).Item())
		}
		return a == b
	}
	if reflect.DeepEqual(a, b) {
		return true
	}
	// (DeepEqual separates a value from itself when a NaN sits inside a container)
	return fmt.Sprintf("%#v", a) == fmt.Sprintf("%#v", b)
}

// latin1 maps a byte string to a string with one rune per byte (transport of
// arbitrary bytes through JSON); unlatin1 is its inverse.
func latin1(b string) string {
	var sb strings.Builder
	for i := 0; i < len(b); i++ {
		sb.WriteRune(rune(b[i]))
	}
	return sb.String()
}

func unlatin1(s string) string {
	b := make([]byte, 0, len(s))
	for _, r := range s {
		if r > 0xff {
			derr("unlatin1: rune %U", r)
		}
		b = append(b, byte(r))
	}
	return string(b)
}
