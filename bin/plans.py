"""Per-property plans: which bounded models, generators, facets."""
import json
import random

import gens
import phases


def own_facet(plan, rec):
    """A check looks only at its own facets (DESIGN 4.3)."""
    f = rec.get("facet")
    if f in ("obspanic", "res.panic"):
        return True
    return f in plan.get("own", plan["facets"].split(","))


COMPARED_KEY = {"res.lexer": "res.xmlok", "res.autostyle": "res.status", "res.solo": "res.unequal", "res.decor": "res.err",
                "res.setprop": "res.err", "out.all": "res.all", "out.errtext": "res.status",
                # the parsed form of each format's output, which the format's relation is evaluated on
                "out.text": "res.lines", "out.csv": "res.bytes", "out.html": "res.toks", "out.json": "res.json", "out.md": "res.md"}


def compared_key(facet):
    """The validator's comparison counter (TabularTrace!Compared: one per logged observation or result field)
    that a mismatch facet is computed from."""
    if facet in COMPARED_KEY:
        return COMPARED_KEY[facet]
    if facet.startswith("out."):
        return "res.status"          # every render logs its status and output
    return facet


def _diffkeys(a, b):
    if isinstance(a, dict) and isinstance(b, dict):
        return sorted(k for k in set(a) | set(b) if a.get(k) != b.get(k))
    if isinstance(a, list) and isinstance(b, list) and len(a) == len(b) and a and all(isinstance(x, dict) for x in a + b):
        ks = set()
        for x, y in zip(a, b):
            ks |= set(_diffkeys(x, y))
        return sorted(ks)
    return []


def signature(plan, rec):
    d = rec.get("detail", {}) or {}
    extra = ()
    if rec.get("facet") == "res.faults":
        f = (d.get("obs") or {}).get("faults", {})
        bad = sorted({(r[1], r[2], r[3], r[4]) for r in f.get("runs", []) if not (r[2] == 1 and r[3] == 0 and r[4] == 1)})
        return (rec.get("facet"), rec.get("op"), f.get("fmt"), json.dumps(bad))
    if isinstance(d, dict) and "exp" in d and "obs" in d:
        extra = tuple(_diffkeys(d["exp"], d["obs"]))
    elif isinstance(d, dict) and d.get("hint"):
        extra = (json.dumps(d["hint"])[:120],)
    return (rec.get("facet"), rec.get("op")) + extra


PLANS = {}

PLANS["C02"] = {
    "require_ops": ['headers', 'rowitems', 'sep', 'appendrow', 'newrow', 'rowadd', 'addrow'],
    "facets": "grid",
    "own": ["grid", "drows"],
    "mc": [{
        "module": "MCGrid",
        "quick": dict(MaxRows=3, MaxCells=2, MaxLate=1, MaxDetached=1, MaxHdr=2, MaxHist=6, ItemMode="plain", ReAdd=True, Variant="repaired"),
        "thorough": dict(MaxRows=4, MaxCells=2, MaxLate=2, MaxDetached=1, MaxHdr=2, MaxHist=8, ItemMode="plain", ReAdd=True, Variant="repaired"),
        "properties": ["RowsAppendOnly"],
    }, {
        # two tables: rows joining either, both, or one of them twice, cells added before and after
        "module": "MCGridShared",
        "quick": dict(MaxHist=8, MaxRowsS=2, MaxJoin=3),
        "thorough": dict(MaxHist=9, MaxRowsS=2, MaxJoin=4),
    }],
    "simulate": [{"module": "MCGrid",
                  "quick": dict(MaxRows=40, MaxCells=3, MaxLate=3, MaxDetached=3, MaxHdr=3, ItemMode="plain", ReAdd=True, Variant="repaired", _num=100, _depth=30),
                  "thorough": dict(MaxRows=60, MaxCells=4, MaxLate=4, MaxDetached=4, MaxHdr=4, ItemMode="plain", ReAdd=True, Variant="repaired", _num=3000, _depth=40)}],
    "random": [{"gen": gens.gen_grid}],
    "min_scenarios": {"quick": 1000, "thorough": 10000},
    "assumptions": [
        "the Go driver's projection of the table through the public API (obs.go: obsGrid) is faithful",
        "header replacement: the column count never shrinks (DESIGN 4.5)",
        "positions are demanded of rows that are listed once, in one table (a row has one Location; DESIGN 0.5)",
    ],
}

PLANS["C18"] = {
    "require_ops": ['measure', 'mutate', 'update'],
    "facets": "text",
    "own": ["res.metrics", "text"],
    "mc": [{
        # cells built from every item kind, mutated and updated: reported height / width / lines follow the text
        "module": "MCItems",
        "quick": dict(MaxHist=6),
        "thorough": dict(MaxHist=7),
        "properties": ["TextStable"],
        "subst": {"quick": [{"n": 3}], "thorough": [{"n": k} for k in range(3, 9)]},
    }, {
        "module": "MCMetrics",
        "quick": dict(MaxLen=5),
        "thorough": dict(MaxLen=7),
        "subst": {"quick": [{"n": 1}, {"n": 2}], "thorough": [{"n": k} for k in range(1, 9)]},
    }],
    "random": [{"gen": gens.gen_metrics}, {"gen": gens.gen_items}],
    "min_scenarios": {"quick": 1000, "thorough": 20000},
    "assumptions": [
        "display width is the library's own measure (logged, not modelled)",
        "the driver's tokenisation (chunks free of line feeds joined with line feeds) is faithful",
    ],
}

PLANS["C01"] = {
    "require_ops": ['rowitems', 'mutate', 'update', 'headers'],
    "facets": "text",
    "own": ["text", "out.csv", "out.html", "out.errtext"],
    "mc": [{
        "module": "MCItems",
        "quick": dict(MaxHist=6),
        "thorough": dict(MaxHist=6),
        "properties": ["TextStable"],
        "subst": {"quick": [{"n": 1}, {"n": 2}], "thorough": [{"n": k} for k in range(1, 21)]},
    }],
    "random": [{"gen": gens.gen_items}],
    "min_scenarios": {"quick": 500, "thorough": 5000},
    "assumptions": [
        "the dispatch depends only on (kind, capability set); all 32 capability sets and all kinds are enumerated, the space of dynamic Go types is sampled",
        "for the last arm the oracle is fmt's %v itself (logged by the driver), as the statement names it",
        "the static table of which pool values offer String/Error (items.go: otherCaps) is right",
    ],
}

PLANS["C11"] = {
    "require_ops": ['rowerr', 'tblerr', 'ecadd', 'ecaddlist', 'regcb', 'addrow', 'rowadd', 'rendercbs', 'sep'],
    "facets": "errs",
    "mc": [
        {"module": "MCErrors",
         "quick": dict(Family="ec", MaxHist=6, MaxEc=2, MaxRowsE=2, MaxCbs=1),
         "thorough": dict(Family="ec", MaxHist=7, MaxEc=3, MaxRowsE=2, MaxCbs=1),
         "properties": ["ErrsAppendOnly"]},
        {"module": "MCErrors",
         "quick": dict(Family="tbl", MaxHist=6, MaxEc=0, MaxRowsE=2, MaxCbs=1),
         "thorough": dict(Family="tbl", MaxHist=7, MaxEc=0, MaxRowsE=2, MaxCbs=1),
         "properties": ["ErrsAppendOnly"]},
        # two tables: rows with errors join either, both, or one of them twice
        {"module": "MCErrors",
         "quick": dict(Family="two", MaxHist=8, MaxEc=0, MaxRowsE=1, MaxCbs=1),
         "thorough": dict(Family="two", MaxHist=9, MaxEc=0, MaxRowsE=2, MaxCbs=1),
         "properties": ["ErrsAppendOnly"]},
    ],
    "random": [{"gen": gens.gen_errors}],
    "min_scenarios": {"quick": 5000, "thorough": 50000},
    "assumptions": [
        "every error the driver creates is a distinct object with a distinct id; errors created by the library itself are logged as LIB",
        "order is required only between errors of the same source (row, table, callback registration, container call)",
    ],
}

ALLOWN = '{"table", "row", "cell", "cellvar", "column", "handle"}'


class Raw(str):
    """A constant written into the cfg verbatim (TLA+ set/expression)."""


PLANS["C12"] = {
    "require_ops": ['setprop', 'copycell', 'takecol', 'rowaddcell', 'rowitems'],
    "facets": "props",
    "own": ["props", "res.setprop"],
    "mc": [{
        "module": "MCProps",
        "quick": dict(OwnerKinds=Raw(ALLOWN), Keys=Raw('{"k_int", "k_int64"}'), Vals=Raw('{"v1", "nil"}'), MaxHist=6, MaxCopies=1),
        "thorough": dict(OwnerKinds=Raw(ALLOWN), Keys=Raw('{"k_int", "k_int64", "k_str"}'), Vals=Raw('{"v1", "v2", "nil"}'), MaxHist=6, MaxCopies=2),
        "properties": ["Independence"],
    }, {
        # implementation-shaped model of the link chains (copies share links): refines the map model
        "module": "PropsChain", "gen": False,
        "quick": dict(Owners=Raw('{"cell", "copy1", "copy2"}'), Keys=Raw('{"k1", "k2"}'), Vals=Raw('{"v1", "v2"}'), MaxOps=5, Strip="rebuild"),
        "thorough": dict(Owners=Raw('{"cell", "copy1", "copy2"}'), Keys=Raw('{"k1", "k2", "k3"}'), Vals=Raw('{"v1", "v2"}'), MaxOps=6, Strip="rebuild"),
    }, {
        # keys distinguished by identity: two distinct pointers to equal values
        "module": "MCProps",
        "quick": dict(OwnerKinds=Raw('{"cell", "cellvar", "row"}'), Keys=Raw('{"k_p1", "k_p2", "k_sA"}'), Vals=Raw('{"v1", "nil"}'), MaxHist=5, MaxCopies=1),
        "thorough": dict(OwnerKinds=Raw(ALLOWN), Keys=Raw('{"k_p1", "k_p2", "k_sA", "k_sB"}'), Vals=Raw('{"v1", "v2", "nil"}'), MaxHist=5, MaxCopies=1),
        "properties": ["Independence"],
    }],
    "random": [{"gen": gens.gen_props}],
    "min_scenarios": {"quick": 5000, "thorough": 50000},
    "assumptions": [
        "key universe of the driver: int/int64/uint8/string/named string with equal values, two struct types with equal fields, two pointers to equal values, the library's own align and skipable keys",
        "chain length is read from the %#v debug form of cells (number of printed links)",
    ],
}


ALLTIMES = '{"add", "pre", "render", "post"}'
ALLTARGETS = '{"itself", "cell", "row"}'


def _cbmc(shape, q, t, times=ALLTIMES, targets=ALLTARGETS, passes=2):
    return {"module": "MCCallbacks",
            "quick": dict(Shape=shape, MaxCbs=q, MaxPasses=passes, RegTimes=Raw(times), RegTargets=Raw(targets)),
            "thorough": dict(Shape=shape, MaxCbs=t, MaxPasses=passes, RegTimes=Raw(times), RegTargets=Raw(targets))}


PLANS["C13"] = {
    "require_ops": ['regcb', 'rendercbs', 'rowadd', 'addrow', 'rowitems', 'headers', 'rowaddcell'],
    "facets": "props",
    "own": ["props", "res.cblog", "res.regerr"],
    "mc": [_cbmc("empty", 2, 2), _cbmc("hdr", 1, 2), _cbmc("one", 2, 2), _cbmc("built", 1, 2), _cbmc("full", 1, 2),
           # cells copied by value carry their callbacks: registrations on the original and on each copy
           _cbmc("copy", 3, 4, '{"render"}', '{"itself"}', 1),
           # a row in two tables: each table's pass runs that table's own callbacks on the shared row's cells
           _cbmc("shared", 1, 2, '{"pre", "render", "post"}', '{"cell", "itself"}', 2)],
    "random": [{"gen": gens.gen_callbacks}],
    "min_scenarios": {"quick": 3000, "thorough": 50000},
    "assumptions": [
        "events on which the statement is silent (header row, cell callbacks of the defaults column 0, separators, add-time events of AddHeaders and of late cells, (time,target) pairs no slot mentions) are optional: at most once, in slot order",
        "the recording callback identifies its target by pointer identity through the public API after the call returns",
    ],
}


def _rmc(fmt, cells, rows, cols, aligns, decors, hdr, html="{}", writer=False):
    return dict(Fmt=fmt, CellNames=Raw(cells), MaxCols=cols, MaxRows=rows, AlignVals=Raw(aligns), DecorNames=Raw(decors),
                HdrChoices=Raw(hdr), HtmlChoices=Raw(html), CheckWriter=writer, JsonVariant="repaired")


def _textmc(cells, rows, cols, aligns, decors, hdr):
    return _rmc("text", cells, rows, cols, aligns, decors, hdr)


PLANS["C03"] = {
    "require_ops": ['render', 'decor', 'sep', 'headers'],
    "facets": "none",
    "own": ["out.text", "out.errtext"],
    "mc": [{
        "module": "MCRender",
        "quick": _textmc('{"e", "a", "m"}', 2, 2, "{}", '{"default", "none"}', "{0, 1, 2}"),
        "thorough": _textmc('{"e", "a", "w", "m"}', 2, 2, "{}", '{"default", "none"}', "{0, 1, 2}"),
        "subst": {"quick": [{"n": 1}], "thorough": [{"n": 1}, {"n": 2}]},
    }, {
        # one line per text line of the tallest cell, also when an item understates / overstates its height
        "module": "MCRender",
        "quick": _textmc('{"a", "m", "H1", "H3"}', 1, 2, "{}", '{"default", "none"}', "{0, 1}"),
        "thorough": _textmc('{"e", "a", "m", "H1", "H3"}', 2, 2, "{}", '{"default", "none"}', "{0, 1, 2}"),
    }],
    "random": [{"gen": gens.gen_text}],
    "min_scenarios": {"quick": 3000, "thorough": 50000},
    "assumptions": [
        "display width is the library's own measure of each text line and of each output line (logged)",
        "glyphs of a decoration are one cell wide (documented contract; generated custom glyphs are)",
        "a header with zero cells still makes a header block of one (blank) line",
    ],
}

PLANS["C04"] = {
    "require_ops": ['render', 'setprop'],
    "facets": "none",
    "own": ["out.text", "out.errtext"],
    "mc": [{
        "module": "MCRender",
        "quick": _textmc('{"a", "m", "W5", "H3", "WH"}', 1, 2, '{"vL", "vR", "vC"}', '{"default"}', "{1}"),
        "thorough": _textmc('{"a", "m", "W5", "W1", "W0", "H3", "H1", "WH"}', 1, 2, '{"vL", "vR", "vC"}', '{"default", "none"}', "{1}"),
        "subst": {"quick": [{"n": 1}], "thorough": [{"n": 1}]},
    }],
    "random": [{"gen": gens.gen_text_sized}],
    "min_scenarios": {"quick": 3000, "thorough": 50000},
    "assumptions": [
        "multi-line items that also declare a width are not generated (the statement speaks of single-line items only)",
        "alignment values are the library's Left/Right/Center (other values make the library panic by design: TestingInvalidAlignment)",
    ],
}


PLANS["C05"] = {
    "require_ops": ['render'],
    "facets": "none",
    "own": ["out.csv", "out.errtext"],
    "mc": [{
        "module": "MCRender",
        "quick": _rmc("csv", '{"E", "x", "Q", "CQ"}', 2, 2, "{}", "{}", "{0, 1, 2}"),
        "thorough": _rmc("csv", '{"E", "x", "Q", "C", "RN", "QQ"}', 2, 2, "{}", "{}", "{0, 1, 2}"),
        "run_opts": {"extra": ["-bytes"]},
        "subst": {"quick": [{"n": 1, "pool": "csv"}], "thorough": [{"n": 1, "pool": "csv"}, {"n": 2, "pool": "csv"}]},
    }],
    "random": [{"gen": gens.gen_csv, "run_opts": {"extra": ["-bytes"]}}],
    "min_scenarios": {"quick": 3000, "thorough": 50000},
    "assumptions": [
        "byte strings travel through JSON as Latin-1 (one rune per byte) on both sides; the strict RFC 4180 reader is the TLA+ operator CsvParse",
        "LF and CRLF are both accepted as record terminators (RFC 4180 says CRLF; the library writes LF)",
    ],
}

PLANS["C06"] = {
    "require_ops": ['render', 'htmlopts'],
    "facets": "none",
    "own": ["out.html", "out.errtext", "res.lexer"],
    "mc": [{
        "module": "MCRender",
        "quick": _rmc("html", '{"E", "x", "LT"}', 2, 2, "{}", "{}", "{0, 1, 2}", '{"none", "all", "gen0", "regen"}'),
        "thorough": _rmc("html", '{"E", "x", "LT", "AMP", "SC"}', 2, 2, "{}", "{}", "{0, 1, 2}", '{"none", "all", "gen0", "regen"}'),
        "subst": {"quick": [{"n": 1, "pool": "html"}], "thorough": [{"n": 1, "pool": "html"}, {"n": 2, "pool": "html"}]},
    }],
    "random": [{"gen": gens.gen_html}],
    "min_scenarios": {"quick": 3000, "thorough": 50000},
    "assumptions": [
        "the hand-written strict tokenizer (lex.go: lexHTML, with hostile self-tests) is right; entity decoding is html.UnescapeString",
        "strings are valid UTF-8 without NUL (html/template substitutes U+FFFD otherwise; outside the stated alphabets)",
    ],
}

PLANS["C07"] = {
    "require_ops": ['render', 'setprop', 'sep'],
    "facets": "none",
    "own": ["out.json", "out.errtext"],
    "mc": [
        # separators in every position: all row/separator sequences up to length 5
        {"module": "MCRender",
         "quick": _rmc("json", '{"x"}', 5, 1, '{"vtrue"}', "{}", "{1}"),
         "thorough": _rmc("json", '{"x", "E"}', 6, 1, '{"vtrue", "vfalse"}', "{}", "{1}")},
        # contents, header error cases and skipable assignments on one or two rows
        {"module": "MCRender",
         "quick": _rmc("json", '{"E", "x", "obj"}', 1, 2, '{"vtrue", "vfalse", "vbad"}', "{}", "{0, 1, 2}"),
         "thorough": _rmc("json", '{"E", "x", "U", "obj", "obje", "nil", "num"}', 1, 2, '{"vtrue", "vfalse", "vbad"}', "{}", "{0, 1, 2}"),
         "subst": {"quick": [{"n": 1, "pool": "json"}], "thorough": [{"n": 1, "pool": "json"}]}},
    ],
    "random": [{"gen": gens.gen_json}],
    "min_scenarios": {"quick": 3000, "thorough": 50000},
    "assumptions": [
        "the JSON encoding of an item is encoding/json's (logged by the driver in canonical form), as the statement names it",
        "the output is read with encoding/json's streaming decoder (duplicate keys visible) and json.Valid",
    ],
}

PLANS["C08"] = {
    "require_ops": ['render', 'setprop'],
    "facets": "none",
    "own": ["out.md", "out.errtext"],
    "mc": [
        # shapes and hostile contents, no alignment settings
        {"module": "MCRender",
         "quick": _rmc("md", '{"E", "x", "P", "NN"}', 2, 2, "{}", "{}", "{0, 1, 2}"),
         "thorough": _rmc("md", '{"E", "x", "P", "NN", "BP", "LT"}', 2, 2, "{}", "{}", "{0, 1, 2}"),
         "subst": {"quick": [{"n": 1, "pool": "md"}], "thorough": [{"n": 1, "pool": "md"}]}},
        # every alignment assignment to column 0 and each column
        {"module": "MCRender",
         "quick": _rmc("md", '{"x", "P"}', 1, 2, '{"vL", "vR", "vC"}', "{}", "{1, 2}"),
         "thorough": _rmc("md", '{"E", "x", "P"}', 1, 2, '{"vL", "vR", "vC"}', "{}", "{0, 1, 2}")},
    ],
    "random": [{"gen": gens.gen_md}],
    "min_scenarios": {"quick": 3000, "thorough": 50000},
    "assumptions": [
        "cells are split at pipes not preceded by a backslash (GFM); entity decoding is html.UnescapeString; only spaces are trimmed",
        "texts are free of carriage returns (documented non-goal)",
    ],
}


PLANS["C09"] = {
    "require_ops": ['rowadd', 'addrow', 'sep', 'headers'],
    "facets": "none",
    "own": ["out.all"],
    "mc": [
        # every build history up to the bound (plain items)
        {"module": "MCGrid",
         "quick": dict(MaxRows=3, MaxCells=2, MaxLate=1, MaxDetached=1, MaxHdr=1, MaxHist=5, ItemMode="plain", ReAdd=False, Variant="repaired"),
         "thorough": dict(MaxRows=3, MaxCells=2, MaxLate=1, MaxDetached=1, MaxHdr=2, MaxHist=7, ItemMode="plain", ReAdd=False, Variant="repaired"),
         "run_opts": {"extra": ["-final", "renderall"]}},
        # smaller shapes with items whose declared size disagrees with their text
        {"module": "MCGrid",
         "quick": dict(MaxRows=2, MaxCells=1, MaxLate=1, MaxDetached=1, MaxHdr=1, MaxHist=5, ItemMode="mixed", ReAdd=False, Variant="repaired"),
         "thorough": dict(MaxRows=2, MaxCells=1, MaxLate=2, MaxDetached=1, MaxHdr=1, MaxHist=6, ItemMode="mixed", ReAdd=False, Variant="repaired"),
         "run_opts": {"extra": ["-final", "renderall"]}},
    ],
    "simulate": [{"module": "MCGrid",
                  "quick": dict(MaxRows=40, MaxCells=3, MaxLate=3, MaxDetached=3, MaxHdr=3, ItemMode="mixed", ReAdd=False, Variant="repaired", _num=150, _depth=30),
                  "thorough": dict(MaxRows=60, MaxCells=4, MaxLate=4, MaxDetached=4, MaxHdr=4, ItemMode="mixed", ReAdd=False, Variant="repaired", _num=3000, _depth=40),
                  "run_opts": {"extra": ["-final", "renderall"], "every": False}}],
    "random": [{"gen": gens.gen_total, "run_opts": {"every": False}}],
    "min_scenarios": {"quick": 5000, "thorough": 50000},
    "assumptions": [
        "items are text-like (strings, runes, nil, Stringer/GoStringer/error objects with size overrides, numbers, nested cells); property values are the library's own",
        "what RenderTo wrote before returning an error is not inspected here (C15 does)",
    ],
}


ALLCRE = '{"core", "csv", "html", "json", "markdown", "texttable", "auto:csv", "auto:utf8-light"}'
ALLFMT = '{"text", "csv", "html", "json", "md"}'


def _wmc(content, creators, kinds, wraps, renders, targets=ALLFMT, decors="{}"):
    return dict(Content=content, Creators=Raw(creators), WrapKinds=Raw(kinds), MaxWraps=wraps, MaxRenders=renders, Targets=Raw(targets),
                DecorSwitch=Raw(decors))


PLANS["C10"] = {
    "require_ops": ['wrap', 'render', 'newtable'],
    "facets": "same",
    "own": ["res.same", "out.text", "out.csv", "out.html", "out.json", "out.md", "out.errtext", "res.dec", "res.autostyle", "res.regerr"],
    "mc": [
        {"module": "MCWrap", "properties": ["RenderPure"],
         "quick": _wmc("c1", ALLCRE, '{"text", "csv", "md"}', 2, 1),
         "thorough": _wmc("c1", ALLCRE, ALLFMT, 3, 1)},
        {"module": "MCWrap", "properties": ["RenderPure"],
         "quick": _wmc("c3", ALLCRE, '{"text", "md"}', 1, 1),
         "thorough": _wmc("c3", ALLCRE, ALLFMT, 2, 1)},
        {"module": "MCWrap", "properties": ["RenderPure"],
         "quick": _wmc("c2", ALLCRE, '{"text", "html"}', 1, 1),
         "thorough": _wmc("c2", ALLCRE, ALLFMT, 2, 1)},
    ],
    "random": [{"gen": gens.gen_paths}],
    "min_scenarios": {"quick": 2000, "thorough": 30000},
    "assumptions": [
        "the reference output is the same content rebuilt on a core New() table and rendered by the format's own Wrap(...).Render() with the same decoration / html options; byte equality is decided by Go's ==",
    ],
}

PLANS["C14"] = {
    "require_ops": ['wrap', 'render'],
    "facets": "rep,grid,text,props,errs",
    "own": ["res.rep", "grid", "drows", "text", "props", "errs"],
    "mc": [
        {"module": "MCWrap", "properties": ["RenderPure"], "run_opts": {"every": True},
         "quick": _wmc("c1", '{"core"}', '{"text", "md"}', 2, 3, '{"text", "md", "csv"}', '{"ascii-simple", "utf8-light"}'),
         "thorough": _wmc("c1", '{"core", "texttable"}', ALLFMT, 2, 4, ALLFMT, '{"ascii-simple", "utf8-light"}')},
        {"module": "MCWrap", "properties": ["RenderPure"], "run_opts": {"every": True},
         "quick": _wmc("c3", '{"core", "markdown"}', '{"text", "md"}', 2, 3, '{"text", "md", "json"}'),
         "thorough": _wmc("c3", '{"core", "markdown"}', ALLFMT, 2, 3)},
    ],
    "random": [{"gen": gens.gen_repeat}],
    "min_scenarios": {"quick": 1000, "thorough": 10000},
    "assumptions": [
        "no user callbacks are registered (the statement excludes callbacks that fail or mutate)",
        "first-output identity is kept by the driver per (content version, format, decoration, html options)",
    ],
}



def _fmc(fmt, cells, decors='{}', html='{}', rows=2):
    o = {"extra": ["-swapfinal", "faultsweep"]}
    return {"module": "MCRender",
            "quick": _rmc(fmt, cells, rows, 2, "{}", decors, "{0, 1, 2}", html, True),
            "thorough": _rmc(fmt, cells, rows + 1, 2, "{}", decors, "{0, 1, 2}", html, True),
            "run_opts": o}


PLANS["C15"] = {
    "require_ops": ['render'],
    "facets": "none",
    "own": ["res.faults"],
    "level": "fault_enumeration",
    "mc": [_fmc("text", '{"a", "m"}', '{"default", "none"}'), _fmc("csv", '{"E", "x"}'), _fmc("json", '{"x", "U"}'),
           _fmc("md", '{"E", "x"}'), _fmc("html", '{"x"}', html='{"none", "all"}', rows=1)],
    "random": [{"gen": gens.gen_faults, "run_opts": {"every": False}}],
    "min_scenarios": {"quick": 1000, "thorough": 20000},
    "assumptions": [
        "the scripted writer covers: fails from call k on, fails only at call k, partial write (half accepted) with error at call k, for every k up to the fault-free call count",
        "prefix test by bytes.HasPrefix against the same wrapper's fault-free output",
    ],
}


PLANS["C17"] = {
    "require_ops": ['decor', 'regdecor', 'render'],
    "facets": "none",
    "own": ["res.decor", "out.text", "out.errtext", "res.dec"],
    "phases": [phases.registry_phase],
    "random": [{"gen": gens.gen_failclosed, "run_opts": {"every": True}}],
    "min_scenarios": {"quick": 300, "thorough": 3000},
    "assumptions": [
        "nothing inside the library is instrumented: the real-time order of registry operations comes from one atomic clock of the driver read immediately before each call and immediately after its return",
        "data races are detected by Go's race detector (and the runtime's concurrent-map abort) on the very executions that are trace-validated; a report counts only with a frame inside the library",
        "under overlapping calls exactly what the statement promises is demanded (a regular register per name; listings bounded by what was registered before the call and what was being registered before the return), sequential histories exactly",
    ],
}

PLANS["C16"] = {
    "facets": "none",
    "own": ["res.solo", "out.text", "out.csv", "out.html", "out.json", "out.md", "out.errtext"],
    "phases": [phases.conc_phase],
    "min_scenarios": {"quick": 200, "thorough": 3000},
    "assumptions": [
        "data races are detected by Go's race detector on the executions that are trace-validated; a report counts only if it has a frame inside the library",
        "each goroutine owns its tables and wrappers; html wrappers with a row-class generator are used by one goroutine only (documented restriction)",
    ],
}

PLANS["C19"] = {
    "require_ops": ['autonew', 'liststyles', 'regdecor'],
    "facets": "none",
    "own": ["res.auto", "res.styles"],
    "phases": [phases.styles_phase],
    "mc": [{"module": "MCAuto",
            "quick": dict(RegNames=Raw('{"mine", "a.b", "CSV", "texttable", "csv-friendly", "dashed"}'), MaxReg=2),
            "thorough": dict(RegNames=Raw('{"mine", "Mine", "a.b", "csv", "CSV", "texttable", "a.b.c", "csv-friendly", "html5", "dashed", "texttable-x"}'), MaxReg=2)}],
    "random": [{"gen": gens.gen_auto}],
    "min_scenarios": {"quick": 500, "thorough": 5000},
    "assumptions": [
        "the registry is process-global and only grows: every scenario that registers names runs in a process of its own; the built-in names and the default decoration are logged inputs of each scenario",
        "registering the empty decoration value under a name is not generated (it is the documented 'no such decoration' sentinel)",
        "for a decoration name followed by sections that is not registered as a whole the statement is silent: only consistency (unknown fails, known renders) is required",
    ],
}
