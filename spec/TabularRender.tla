--------------------------- MODULE TabularRender ---------------------------
(***************************************************************************)
(* Wrappers and renderers layered on the core table model: the full Apply, *)
(* and the relations between a render call's logged result and what the    *)
(* properties allow (C03-C10, C14, C15).                                   *)
(*                                                                         *)
(* Each renderer has a declarative part (what a correct output is, at the  *)
(* level the property fixes it) used as the oracle of trace validation,    *)
(* and an implementation-shaped emitter (the code's write sequence) used   *)
(* by the bounded models (Writer faults, JSON comma machine).              *)
(***************************************************************************)
EXTENDS Tabular

-----------------------------------------------------------------------------
(* String helpers (TLC strings support Len, \o, SubSeq and =) *)

RECURSIVE Rep(_, _)
Rep(s, n) == IF n <= 0 THEN "" ELSE s \o Rep(s, n - 1)
Spaces(n) == Rep(" ", n)
StartsWith(s, p) == Len(s) >= Len(p) /\ SubSeq(s, 1, Len(p)) = p
Drop(s, n) == SubSeq(s, n + 1, Len(s))

RECURSIVE SumSeq(_)
SumSeq(s) == IF s = <<>> THEN 0 ELSE Head(s) + SumSeq(Tail(s))

RECURSIVE ConcatSeq(_)
ConcatSeq(ws) == IF ws = <<>> THEN "" ELSE Head(ws) \o ConcatSeq(Tail(ws))

-----------------------------------------------------------------------------
(* Wrappers *)
(*                                                                         *)
(* A wrapper record: [kind, over (core table id), dec (decoration as       *)
(* logged: boxless, empty, g = glyph per drawing field), html options].    *)

DefaultDec == [boxless |-> 0, empty |-> 0,
               g |-> [CrossPiece |-> "+", HOuter |-> "=", HRule |-> "-", VHeader |-> "#", VBodyBorder |-> "#",
                      VBodyInner |-> "|", TopLeft |-> "+", TopRight |-> "+", BottomLeft |-> "+", BottomRight |-> "+",
                      LeftBodyRule |-> "+", RightBodyRule |-> "+", HTopDown |-> "+", BTopDown |-> "+", BBottomUp |-> "+",
                      HBCross |-> "+", HBLeft |-> "+", HBRight |-> "+"]]

DecOf(op) == IF "dec" \in DOMAIN op THEN op.dec ELSE DefaultDec

NoHtml == [id |-> "", class |-> "", caption |-> "", gen |-> 0, genvals |-> <<>>]

KindOfVia(via) == CASE via = "texttable" -> "text" [] via = "markdown" -> "md" [] OTHER -> via

NewWrapper(kind, over, dec) == [kind |-> kind, over |-> over, dec |-> dec, html |-> NoHtml]

DoNewTableW(st, op) ==
  LET s1 == DoNewTable(st, op) IN
  IF op.via = "core" THEN s1
  ELSE [s1 EXCEPT !.wr = Append(@, NewWrapper(IF "rkind" \in DOMAIN op THEN op.rkind ELSE KindOfVia(op.via),
                                              Len(s1.tbl), DecOf(op)))]

OverTable(st, o) == IF "w" \in DOMAIN o THEN st.wr[o.w].over ELSE o.t

DoWrap(st, op) ==
  [st EXCEPT !.wr = Append(@, NewWrapper(IF "rkind" \in DOMAIN op THEN op.rkind ELSE op.kind,
                                         OverTable(st, op.over), DecOf(op)))]

DoDecor(st, op) == [st EXCEPT !.wr[op.w].dec = DecOf(op)]

\* Populate (decoration/box_drawing.go): a custom decoration given by some of its
\* fields is completed from key glyphs; c is the record of the fields that were set.
\* (Beyond the listed properties: C03 only needs the result to be complete; a
\* disagreement here is reported under the facet res.populate, which no check owns.)
PopulateOf(c) ==
  LET F(f, d) == IF f \in DOMAIN c /\ c[f] # "" THEN c[f] ELSE d
      Horizontal == F("Horizontal", "H")
      Vertical == F("Vertical", "V")
      CrossPiece == F("CrossPiece", "X")
      TopDown == F("TopDown", CrossPiece)
      VBorder == F("VBorder", Vertical)
      LeftBodyRule == F("LeftBodyRule", CrossPiece)
      RightBodyRule == F("RightBodyRule", CrossPiece)
  IN [CrossPiece |-> CrossPiece, HOuter |-> F("HOuter", Horizontal), HRule |-> F("HRule", Horizontal),
      VHeader |-> F("VHeader", VBorder), VBodyBorder |-> F("VBodyBorder", VBorder), VBodyInner |-> F("VBodyInner", Vertical),
      TopLeft |-> F("TopLeft", CrossPiece), TopRight |-> F("TopRight", CrossPiece),
      BottomLeft |-> F("BottomLeft", CrossPiece), BottomRight |-> F("BottomRight", CrossPiece),
      LeftBodyRule |-> LeftBodyRule, RightBodyRule |-> RightBodyRule,
      HTopDown |-> F("HTopDown", TopDown), BTopDown |-> F("BTopDown", TopDown),
      BBottomUp |-> F("BBottomUp", CrossPiece), HBCross |-> F("HBCross", CrossPiece),
      HBLeft |-> F("HBLeft", LeftBodyRule), HBRight |-> F("HBRight", RightBodyRule)]

PopulateBad(op) ==
  "custom" \in DOMAIN op /\ "dec" \in DOMAIN op
  /\ (op.dec.g # PopulateOf(op.custom) \/ op.dec.boxless # 0 \/ op.dec.empty # 0)

\* the decoration registry as the scenario sees it: the built-in names plus what it registered
BuiltinDecorNames == {"ascii-simple", "none", "utf8-light", "utf8-light-curved", "utf8-heavy", "utf8-double"}
DoRegDecor(st, op) == [st EXCEPT !.reg = [n \in DOMAIN st.reg \cup {op.name} |-> IF n = op.name THEN op.dec ELSE st.reg[n]]]

EmptyDecRec == [boxless |-> 0, empty |-> 1]
RegLookup(st, n) == IF n \in DOMAIN st.reg THEN st.reg[n] ELSE EmptyDecRec

\* C17 (sequential part): selecting a decoration by name -- a registered name gives
\* exactly what is registered under it (the latest), any other name an error and
\* the empty decoration (so that rendering then fails)
DecorByNameBad(st, op, res) ==
  IF "name" \notin DOMAIN op \/ "err" \notin DOMAIN res THEN FALSE
  ELSE IF op.name \in DOMAIN st.reg THEN op.dec # st.reg[op.name] \/ res.err # 0
  ELSE op.dec.empty # 1 \/ res.err # 1

DoHtmlOpts(st, op) ==
  [st EXCEPT !.wr[op.w].html = [id |-> op.id, class |-> op.class, caption |-> op.caption,
                                gen |-> op.gen, genvals |-> op.genvals]]

\* the core table a render call works on, its format, decoration and html options
RenderTbl(st, op) == IF "w" \in DOMAIN op THEN st.wr[op.w].over
                     ELSE IF "ow" \in DOMAIN op THEN st.wr[op.ow].over ELSE op.t
RenderKind(st, op) == IF "w" \in DOMAIN op THEN st.wr[op.w].kind
                      ELSE IF "pkg" \in DOMAIN op THEN op.pkg ELSE op.rkind
RenderDec(st, op) == IF "w" \in DOMAIN op THEN st.wr[op.w].dec ELSE DecOf(op)
RenderHtml(st, op) == IF "w" \in DOMAIN op THEN st.wr[op.w].html ELSE NoHtml

\* a render runs one pass of render-time callbacks on the core table
DoRender(st, op, fired) == Fire([st EXCEPT !.rendered = TRUE], RenderTbl(st, op), 0, fired)

SlotsOfAll(st, op) ==
  IF op.op \in {"render", "renderfault"} THEN SlotsRenderPass(st, RenderTbl(st, op)) ELSE SlotsOf(st, op)

Apply(st, op, fired) ==
  CASE op.op = "newtable" -> DoNewTableW(st, op)
    [] op.op = "wrap"     -> DoWrap(st, op)
    [] op.op = "decor"    -> DoDecor(st, op)
    [] op.op = "regdecor" -> DoRegDecor(st, op)
    [] op.op = "htmlopts" -> DoHtmlOpts(st, op)
    [] op.op \in {"render", "faultsweep"} -> DoRender(st, op, fired)
    [] OTHER -> ApplyCore(st, op, fired)

-----------------------------------------------------------------------------
(* Text table layout (C03, C04) *)

AlignOf(v) == CASE v = "vL" -> "left" [] v = "vR" -> "right" [] v = "vC" -> "centre" [] OTHER -> "unset"

\* effective alignment of column i: own setting, else the column-0 default, else left
EffAlign(T, i) ==
  LET own == AlignOf(MapGet(T.cols[i + 1].props, "k_align"))
      def == AlignOf(MapGet(T.cols[1].props, "k_align"))
  IN IF own # "unset" THEN own ELSE IF def # "unset" THEN def ELSE "left"

\* number of slot lines a cell occupies: its text lines, or its (declared) height if larger
CellSlots(c) == Max2(Len(c.lines), CellHeight(c))

\* display width used to lay out line j of a cell: a single-line item that declares
\* its width is laid out as exactly that wide; otherwise the line's own measure
RECURSIVE DeclaresWidth(_)
DeclaresWidth(d) == IF d.k = "cell" THEN DeclaresWidth(d.inner) ELSE d.k = "cellptr" \/ HasCap(d, "Width")
LineW(c, j) == IF Len(c.lines) = 1 /\ DeclaresWidth(c.snap) THEN CellWidth(c) ELSE c.lines[j][2]

\* is the library's width measure additive for this text line between spaces (logged by the driver)?
\* Where it is not (a combining mark with a width of its own, an emoji modifier, a prepended format
\* character at the edge of a cell), no layout can make the whole output line measure the sum of its
\* slots; the slot strings are then still checked exactly, the whole-line measure is not.
SafeLine(l) == Len(l) < 3 \/ l[3] = 1
AllSafe(k) == k[1] = "rule" \/ \A i \in DOMAIN k[2] : k[3] > Len(k[2][i].lines) \/ SafeLine(k[2][i].lines[k[3]])

ColW(st, T, i) ==
  SetMax({0}
    \cup (IF T.hdrp /\ i <= Len(T.hdr) THEN {CellWidth(T.hdr[i])} ELSE {})
    \cup {CellWidth(st.row[r].cells[i]) : r \in {x \in Range(T.rows) : i <= Len(st.row[x].cells)}})

RowH(cells, n) == SetMax({1} \cup {CellSlots(cells[i]) : i \in 1..Min2(Len(cells), n)})

Pad(s, w, colw, al) ==
  LET p == Max2(colw - w, 0) IN
  CASE al = "left"   -> s \o Spaces(p)
    [] al = "right"  -> Spaces(p) \o s
    [] al = "centre" -> Spaces(p \div 2) \o s \o Spaces(p - (p \div 2))

\* --- the text renderer's public helpers, in terms of the same layout operators -----------------------
\* decoration.WidthString{S, W}.WithinWidthAligned(available, alignment): the string padded to the width
\* available (never truncated); a negative W stands for "no content": all blanks; no alignment = left
WithinExpected(op) ==
  IF op.w < 0 THEN Spaces(op.avail)
  ELSE Pad(op.s, op.w, op.avail, IF op.align = "none" THEN "left" ELSE op.align)

\* TextTable.RowToLinesOfWidthStrings(row's cells, column count) after a render has measured the cells:
\* one entry per slot line of the row and per column -- the cell's line with the width it is laid out at,
\* or the empty WidthString where the cell has no such line (or the row has no such cell)
RowLinesExpected(st, op) ==
  LET T == st.tbl[st.wr[op.w].over]
      cells == st.row[op.r].cells
      n == T.ncols
  IN [l \in 1..RowH(cells, n) |->
       [c \in 1..n |-> IF c <= Len(cells) /\ l <= Len(cells[c].lines)
                         THEN <<cells[c].lines[l][1], LineW(cells[c], l)>> ELSE <<"", 0>>]]

\* the padded slot of column i on line j of a row (cells = the row's cells)
SlotStr(st, T, cells, i, j) ==
  IF i > Len(cells) \/ j > Len(cells[i].lines) THEN Spaces(ColW(st, T, i))
  ELSE Pad(cells[i].lines[j][1], LineW(cells[i], j), ColW(st, T, i), EffAlign(T, i))

\* line kinds of the whole output: <<"rule">> or <<"content", cells, j>>
TextKinds(st, T, boxless) ==
  LET n == T.ncols
      content(cells) == [j \in 1..RowH(cells, n) |-> <<"content", cells, j>>]
      rule == IF boxless THEN <<>> ELSE << <<"rule">> >>
  IN rule
     \o (IF T.hdrp THEN content(T.hdr) \o rule ELSE <<>>)
     \o Flatten([k \in 1..Len(T.rows) |->
          IF st.row[T.rows[k]].sep THEN rule ELSE content(st.row[T.rows[k]].cells)])
     \o rule

\* pieces of a line: "g" = any glyph of the decoration; "s" = literal string;
\* "h" = n copies of one glyph
RECURSIVE MatchPieces(_, _, _)
MatchPieces(s, ps, G) ==
  IF ps = <<>> THEN s = ""
  ELSE LET p == Head(ps) IN
    CASE p[1] = "s" -> StartsWith(s, p[2]) /\ MatchPieces(Drop(s, Len(p[2])), Tail(ps), G)
      [] p[1] = "g" -> \E g \in G : StartsWith(s, g) /\ MatchPieces(Drop(s, Len(g)), Tail(ps), G)
      [] p[1] = "h" -> \E g \in G : LET r == Rep(g, p[2]) IN
                          StartsWith(s, r) /\ MatchPieces(Drop(s, Len(r)), Tail(ps), G)

ContentPieces(st, T, cells, j, boxless) ==
  LET n == T.ncols IN
  IF boxless
  THEN Flatten([i \in 1..n |-> (IF i > 1 THEN << <<"s", " ">> >> ELSE <<>>) \o << <<"s", SlotStr(st, T, cells, i, j)>> >>])
  ELSE << <<"g">> >> \o Flatten([i \in 1..n |-> << <<"s", " " \o SlotStr(st, T, cells, i, j) \o " ">>, <<"g">> >>])

RulePieces(st, T) ==
  << <<"g">> >> \o Flatten([i \in 1..T.ncols |-> << <<"h", ColW(st, T, i) + 2>>, <<"g">> >>])

\* display width every line must have (by the library's own measure): dividers and
\* padding plus the column widths; a slot holding a width-declaring single-line item
\* measures as its text does, not as declared
SlotMeasured(st, T, cells, i, j) ==
  IF i > Len(cells) \/ j > Len(cells[i].lines) THEN ColW(st, T, i)
  ELSE cells[i].lines[j][2] + Max2(ColW(st, T, i) - LineW(cells[i], j), 0)

LineWidth(st, T, k, boxless) ==
  LET n == T.ncols
      cols == IF k[1] = "rule" THEN [i \in 1..n |-> ColW(st, T, i)]
              ELSE [i \in 1..n |-> SlotMeasured(st, T, k[2], i, k[3])]
  IN IF boxless THEN SumSeq(cols) + (n - 1) ELSE SumSeq(cols) + 3 * n + 1

GlyphSet(dec) == {dec.g[f] : f \in DOMAIN dec.g} \ {""}

\* which clause fails for which line (for the report); {} = the output is right
TextBad(st, t, dec, res) ==
  LET T == st.tbl[t]
      boxless == dec.boxless = 1
      kinds == TextKinds(st, T, boxless)
      L == res.lines.l
      G == GlyphSet(dec)
  IN IF res.lines.rest # "" THEN {<<"no final newline">>}
     ELSE IF Len(L) # Len(kinds) THEN {<<"line count", Len(kinds), Len(L)>>}
     ELSE {<<"line", i, kinds[i][1]>> : i \in {k \in DOMAIN L :
              \/ ~MatchPieces(L[k][1],
                              IF kinds[k][1] = "rule" THEN RulePieces(st, T)
                              ELSE ContentPieces(st, T, kinds[k][2], kinds[k][3], boxless), G)
              \/ (AllSafe(kinds[k]) /\ L[k][2] # LineWidth(st, T, kinds[k], boxless))}}

\* a complete decoration: boxless, or every drawing glyph present
DecComplete(dec) == dec.boxless = 1 \/ \A f \in DOMAIN dec.g : dec.g[f] # ""

-----------------------------------------------------------------------------
(* Implementation-shaped text emitter (texttable/render.go, decoration/emit.go): *)
(* the two passes of the code, producing the lines it writes.  The bounded      *)
(* models check that what this emitter produces satisfies the declarative      *)
(* relation above (TextBad = {}), so that the two halves of the specification   *)
(* keep each other honest.                                                     *)

\* pass 1 (the measuring callback): per cell the width and the line array
ImplLinesWidths(c) ==
  [j \in 1..CellSlots(c) |->
     IF j <= Len(c.lines)
     THEN <<c.lines[j][1], IF Len(c.lines) = 1 THEN CellWidth(c) ELSE c.lines[j][2], c.lines[j][2]>>
     ELSE <<"", 0, 0>>]

ImplRowLines(cells, n) ==
  LET mx == Min2(Len(cells), n)
      cols == [i \in 1..mx |-> ImplLinesWidths(cells[i])]
      cnt == SetMax({1} \cup {Len(cols[i]) : i \in 1..mx})
  IN [l \in 1..cnt |-> [i \in 1..n |-> IF i <= mx /\ l <= Len(cols[i]) THEN cols[i][l] ELSE <<"", 0, 0>>]]

ImplTemplate(dec, left, horiz, cross, right, widths) ==
  IF dec.boxless = 1 THEN <<>>
  ELSE LET n == Len(widths)
           body == IF n = 0 THEN ""
                   ELSE LET RECURSIVE Go(_)
                            Go(i) == IF i > n THEN ""
                                     ELSE Rep(horiz, widths[i] + 2) \o (IF i < n THEN cross ELSE "") \o Go(i + 1)
                        IN Go(1)
       IN << <<left \o body \o right, 1 + SumSeq(widths) + 2 * n + Max2(n - 1, 0) + 1>> >>

ImplContentLine(dec, dl, di, dr, parts, widths, aligns) ==
  LET n == Len(widths)
      slot(i) == Pad(parts[i][1], parts[i][2], widths[i], aligns[i])
      slotw(i) == parts[i][3] + Max2(widths[i] - parts[i][2], 0)
      RECURSIVE Go(_)
      Go(i) == IF i > n THEN ""
               ELSE (IF dec.boxless = 1 THEN (IF i > 1 THEN " " ELSE "") \o slot(i)
                     ELSE " " \o slot(i) \o " " \o (IF i < n THEN di ELSE dr)) \o Go(i + 1)
  IN << <<(IF dec.boxless = 1 THEN "" ELSE dl) \o Go(1),
          SumSeq([i \in 1..n |-> slotw(i)]) + (IF dec.boxless = 1 THEN n - 1 ELSE 3 * n + 1)>> >>

\* the emitter object itself (Decoration.ForColumnWidths): what its exported methods return for given column
\* widths, one line of cell strings and alignments -- the two operators above, one call each
EmitterExpected(op) ==
  LET dec == op.dec   g == dec.g   ws == op.widths
      line(x) == IF x = <<>> THEN "" ELSE x[1][1]
      \* (a negative width stands for "no content": the slot is all blanks)
      parts == [i \in DOMAIN op.cells |-> IF op.cells[i][2] < 0 THEN <<"", 0, 0>>
                                           ELSE <<op.cells[i][1], op.cells[i][2], op.cells[i][2]>>]
  IN [HeaderTop     |-> line(ImplTemplate(dec, g.TopLeft, g.HOuter, g.HTopDown, g.TopRight, ws)),
      HeaderBodySep |-> line(ImplTemplate(dec, g.HBLeft, g.HOuter, g.HBCross, g.HBRight, ws)),
      BodyTop       |-> line(ImplTemplate(dec, g.TopLeft, g.HOuter, g.BTopDown, g.TopRight, ws)),
      Bottom        |-> line(ImplTemplate(dec, g.BottomLeft, g.HOuter, g.BBottomUp, g.BottomRight, ws)),
      Separator     |-> line(ImplTemplate(dec, g.LeftBodyRule, g.HRule, g.CrossPiece, g.RightBodyRule, ws)),
      HeaderLine    |-> line(ImplContentLine(dec, g.VHeader, g.VHeader, g.VHeader, parts, ws, op.aligns)),
      BodyLine      |-> line(ImplContentLine(dec, g.VBodyBorder, g.VBodyInner, g.VBodyBorder, parts, ws, op.aligns))]

EmitText(st, t, dec) ==
  LET T == st.tbl[t]
      n == T.ncols
      g == dec.g
      widths == [i \in 1..n |-> ColW(st, T, i)]
      aligns == [i \in 1..n |-> EffAlign(T, i)]
      rowlines(cells, dl, di, dr) ==
        Flatten([l \in 1..Len(ImplRowLines(cells, n)) |->
                   ImplContentLine(dec, dl, di, dr, ImplRowLines(cells, n)[l], widths, aligns)])
  IN (IF T.hdrp
      THEN ImplTemplate(dec, g.TopLeft, g.HOuter, g.HTopDown, g.TopRight, widths)
           \o rowlines(T.hdr, g.VHeader, g.VHeader, g.VHeader)
           \o ImplTemplate(dec, g.HBLeft, g.HOuter, g.HBCross, g.HBRight, widths)
      ELSE ImplTemplate(dec, g.TopLeft, g.HOuter, g.BTopDown, g.TopRight, widths))
     \o Flatten([k \in 1..Len(T.rows) |->
           IF st.row[T.rows[k]].sep
           THEN ImplTemplate(dec, g.LeftBodyRule, g.HRule, g.CrossPiece, g.RightBodyRule, widths)
           ELSE rowlines(st.row[T.rows[k]].cells, g.VBodyBorder, g.VBodyInner, g.VBodyBorder)])
     \o ImplTemplate(dec, g.BottomLeft, g.HOuter, g.BBottomUp, g.BottomRight, widths)

\* model-level refinement check: the emitter's output is a correct text table
EmitTextOK(st, t, dec) ==
  st.tbl[t].ncols = 0 \/ TextBad(st, t, dec, [lines |-> [l |-> EmitText(st, t, dec), rest |-> ""]]) = {}

-----------------------------------------------------------------------------
(* Common view of a table for the record-oriented renderers *)

CellTexts(cells) == [i \in DOMAIN cells |-> cells[i].txt]
PadTo(xs, n) == xs \o [i \in 1..(n - Len(xs)) |-> ""]
BodyRowIds(st, T) == SelectSeq(T.rows, LAMBDA r : ~st.row[r].sep)
Ch(s, i) == SubSeq(s, i, i)

-----------------------------------------------------------------------------
(* CSV (C05) *)

\* what a strict reader must get back: header (if any) then every non-separator row,
\* each padded with empty fields to the column count
CsvRecords(st, T) ==
  (IF T.hdrp THEN << PadTo(CellTexts(T.hdr), T.ncols) >> ELSE <<>>)
  \o SeqMap(LAMBDA r : PadTo(CellTexts(st.row[r].cells), T.ncols), BodyRowIds(st, T))

\* strict RFC 4180 reader for the all-fields-quoted dialect: every field is "...",
\* quotes inside are doubled, fields are separated by one comma, every record is
\* terminated by LF or CRLF; anything else is invalid.
\* states: rs record start, fs field start, in inside quotes, q quote seen inside quotes
RECURSIVE CsvParse(_, _, _, _, _, _)
CsvParse(s, i, state, fld, rec, acc) ==
  IF i > Len(s) THEN [ok |-> state = "rs", recs |-> acc]
  ELSE LET c == Ch(s, i) IN
    CASE state \in {"rs", "fs"} ->
           IF c = "\"" THEN CsvParse(s, i + 1, "in", "", rec, acc) ELSE [ok |-> FALSE, recs |-> acc]
      [] state = "in" ->
           IF c = "\"" THEN CsvParse(s, i + 1, "q", fld, rec, acc)
           ELSE CsvParse(s, i + 1, "in", fld \o c, rec, acc)
      [] state = "q" ->
           CASE c = "\"" -> CsvParse(s, i + 1, "in", fld \o "\"", rec, acc)
             [] c = ","  -> CsvParse(s, i + 1, "fs", "", Append(rec, fld), acc)
             [] c = "\n" -> CsvParse(s, i + 1, "rs", "", <<>>, Append(acc, Append(rec, fld)))
             [] c = "\r" -> IF i + 1 <= Len(s) /\ Ch(s, i + 1) = "\n"
                            THEN CsvParse(s, i + 2, "rs", "", <<>>, Append(acc, Append(rec, fld)))
                            ELSE [ok |-> FALSE, recs |-> acc]
             [] OTHER -> [ok |-> FALSE, recs |-> acc]

CsvRead(s) == CsvParse(s, 1, "rs", "", <<>>, <<>>)

CsvBad(st, t, res) ==
  LET T == st.tbl[t] IN
  IF T.ncols = 0 THEN (IF res.status = "error" THEN {} ELSE {<<"no columns but no error">>})
  ELSE IF res.status # "ok" THEN {<<"refused">>}
  ELSE LET p == CsvRead(res.bytes) IN
       IF ~p.ok THEN {<<"not strict RFC 4180">>}
       ELSE IF p.recs # CsvRecords(st, T) THEN {<<"records differ", Len(p.recs), Len(CsvRecords(st, T))>>}
       ELSE {}

\* implementation-shaped emitter (csv.go): the sequence of writes
RECURSIVE CsvEsc(_)
CsvEsc(s) == IF s = "" THEN "" ELSE (IF Ch(s, 1) = "\"" THEN "\"\"" ELSE Ch(s, 1)) \o CsvEsc(Drop(s, 1))
CsvField(s) == "\"" \o CsvEsc(s) \o "\""

CsvRowWrites(txts, n) ==
  LET mx == Len(txts) IN
  [i \in 1..Max2(mx - 1, 0) |-> CsvField(txts[i]) \o ","]
  \o << IF mx > 0 THEN CsvField(txts[mx]) ELSE "\"\"" >>
  \o [i \in 1..(n - Max2(mx, 1)) |-> ",\"\""]
  \o << "\n" >>

CsvWrites(st, t) ==
  LET T == st.tbl[t] IN
  (IF T.hdrp THEN CsvRowWrites(CellTexts(T.hdr), T.ncols) ELSE <<>>)
  \o Flatten(SeqMap(LAMBDA r : CsvRowWrites(CellTexts(st.row[r].cells), T.ncols), BodyRowIds(st, T)))

-----------------------------------------------------------------------------
(* JSON (C07) *)

SkipOf(v) == CASE v = "vtrue" -> "T" [] v = "vfalse" -> "F" [] v = "nil" -> "unset" [] OTHER -> "bad"
ColSkip(T, n) == SkipOf(MapGet(T.cols[n + 1].props, "k_skip"))
EffSkip(T, i) == IF ColSkip(T, i) # "unset" THEN ColSkip(T, i) = "T" ELSE ColSkip(T, 0) = "T"

RECURSIVE TextEncOf(_)
TextEncOf(d) == CASE d.k = "nil" -> "\"\"" [] d.k \in {"cell", "cellptr"} -> TextEncOf(d.inner) [] OTHER -> d.txe[TextSel(d)]

\* the JSON value of a cell: the encoding of its item, or of its non-empty text when
\* the item encodes as an empty object
CellEnc(c) == IF c.item.enc = "{}" /\ c.txt # "" THEN TextEncOf(c.snap) ELSE c.item.enc

JsonErrorCase(st, T) ==
  \/ T.ncols = 0 \/ ~T.hdrp \/ Len(T.hdr) < T.ncols
  \/ \E i \in 1..T.ncols : T.hdr[i].txt = ""
  \/ \E i, j \in 1..T.ncols : i # j /\ T.hdr[i].txt = T.hdr[j].txt
  \/ \E n \in 0..T.ncols : ColSkip(T, n) = "bad"
  \/ \E r \in Range(BodyRowIds(st, T)) : \E i \in DOMAIN st.row[r].cells :
        ~(EffSkip(T, i) /\ CellEmpty(st.row[r].cells[i])) /\ st.row[r].cells[i].item.enc = "!ERR"

JsonRowPairs(T, cells) ==
  {<<T.hdr[i].txt, CellEnc(cells[i])>> : i \in {k \in DOMAIN cells : ~(EffSkip(T, k) /\ CellEmpty(cells[k]))}}

JsonBad(st, t, res) ==
  LET T == st.tbl[t]
      ids == BodyRowIds(st, T)
  IN IF JsonErrorCase(st, T) THEN (IF res.status = "error" THEN {} ELSE {<<"error case accepted">>})
     ELSE IF res.status # "ok" THEN {<<"refused">>}
     ELSE LET j == res.json IN
       IF j.valid # 1 \/ j.shape # 1 THEN {<<"not a valid JSON array of objects">>}
       ELSE IF Len(j.rows) # Len(ids) THEN {<<"object count", Len(ids), Len(j.rows)>>}
       ELSE {<<"object", k>> : k \in {x \in DOMAIN j.rows :
               \/ Range(j.rows[x]) # JsonRowPairs(T, st.row[ids[x]].cells)
               \/ Len(j.rows[x]) # Cardinality(JsonRowPairs(T, st.row[ids[x]].cells))}}

\* implementation-shaped emitter (json.go), at token level: the comma machine
JsonTokens(st, t) ==
  LET T == st.tbl[t]
      RECURSIVE Go(_, _)
      Go(k, need) ==
        IF k > Len(T.rows) THEN << "]" >>
        ELSE IF st.row[T.rows[k]].sep THEN Go(k + 1, need)
        ELSE (IF need THEN << "," >> ELSE <<>>) \o << "obj" >> \o Go(k + 1, TRUE)
  IN << "[" >> \o Go(1, FALSE)

\* the comma machine as it was found (defect D5): the comma was written as soon as any
\* further row existed, separators included -- kept so that the bounded model can show the
\* trailing comma (bin/selftest runs MCRender with JsonVariant = "asfound" and expects TLC to object)
JsonTokensAsFound(st, t) ==
  LET T == st.tbl[t]
      RECURSIVE Go(_, _)
      Go(k, need) ==
        IF k > Len(T.rows) THEN << "]" >>
        ELSE (IF need THEN << "," >> ELSE <<>>)
             \o (IF st.row[T.rows[k]].sep THEN Go(k + 1, FALSE) ELSE << "obj" >> \o Go(k + 1, TRUE))
  IN << "[" >> \o Go(1, FALSE)

\* [ (obj (, obj)*)? ]
JsonTokensOK(toks) ==
  /\ Len(toks) >= 2 /\ toks[1] = "[" /\ toks[Len(toks)] = "]"
  /\ LET body == SubSeq(toks, 2, Len(toks) - 1) IN
       /\ \A i \in DOMAIN body : body[i] = (IF i % 2 = 1 THEN "obj" ELSE ",")
       /\ (body = <<>> \/ Len(body) % 2 = 1)

-----------------------------------------------------------------------------
(* HTML (C06) *)

GenVal(h, p) == IF h.genvals = <<>> THEN "" ELSE h.genvals[(p % Len(h.genvals)) + 1]
TrAttrs(h, p) == IF h.gen = 1 THEN << <<"class", GenVal(h, p)>> >> ELSE <<>>
CellToks(name, txt) == << <<"open", name, <<>> >> >> \o (IF txt = "" THEN <<>> ELSE << <<"text", txt>> >>) \o << <<"close", name>> >>

\* indices (1-based positions in the table, separators counted) of the non-separator rows
BodyRowPositions(st, T) == SelectSeq([i \in 1..Len(T.rows) |-> i], LAMBDA i : ~st.row[T.rows[i]].sep)

HtmlExpected(st, t, h) ==
  LET T == st.tbl[t]
  IN << <<"open", "table", "TABLEATTRS">> >>
     \o (IF h.caption = "" THEN <<>> ELSE CellToks("caption", h.caption))
     \o << <<"open", "thead", <<>> >>, <<"open", "tr", TrAttrs(h, 0)>> >>
     \o Flatten([i \in 1..Len(T.hdr) |-> CellToks("th", T.hdr[i].txt)])
     \o << <<"close", "tr">>, <<"close", "thead">>, <<"open", "tbody", <<>> >> >>
     \o Flatten(SeqMap(LAMBDA p : LET r == T.rows[p] IN
                                   << <<"open", "tr", TrAttrs(h, p)>> >>
                                   \o Flatten([i \in 1..Len(st.row[r].cells) |-> CellToks("td", st.row[r].cells[i].txt)])
                                   \o << <<"close", "tr">> >>,
                       BodyRowPositions(st, T)))
     \o << <<"close", "tbody">>, <<"close", "table">> >>

TableAttrSet(h) == (IF h.class = "" THEN {} ELSE {<<"class", h.class>>}) \cup (IF h.id = "" THEN {} ELSE {<<"id", h.id>>})

HtmlBad(st, t, h, res) ==
  LET T == st.tbl[t]
      exp == HtmlExpected(st, t, h)
      toks == res.toks
  IN IF res.status # "ok" THEN {<<"refused">>}
     ELSE IF Len(toks) # Len(exp) THEN {<<"token count", Len(exp), Len(toks)>>}
     ELSE {<<"token", i>> : i \in {k \in DOMAIN toks :
             IF k = 1 THEN ~(Len(toks[1]) = 3 /\ toks[1][1] = "open" /\ toks[1][2] = "table"
                             /\ Range(toks[1][3]) = TableAttrSet(h) /\ Len(toks[1][3]) = Cardinality(TableAttrSet(h)))
             ELSE toks[k] # exp[k]}}
          \cup (IF h.gen = 1 /\ res.gencalls # (<<0>> \o BodyRowPositions(st, T))
                THEN {<<"generator calls">>} ELSE {})

-----------------------------------------------------------------------------
(* Markdown (C08) *)

RECURSIVE TrimL(_)
TrimL(s) == IF s # "" /\ Ch(s, 1) = " " THEN TrimL(Drop(s, 1)) ELSE s
RECURSIVE TrimR(_)
TrimR(s) == IF s # "" /\ Ch(s, Len(s)) = " " THEN TrimR(SubSeq(s, 1, Len(s) - 1)) ELSE s
TrimSp(s) == TrimR(TrimL(s))

\* a lexed cell: <<raw, decoded, rawflag, ndash, lcolon, rcolon, delimonly>>
MdCellsBad(T, cells, lc) ==   \* a content line: cells = the row's cells, lc = lexed cells
  {i \in 1..T.ncols :
     \/ lc[i][2] # (IF i <= Len(cells) THEN TrimSp(cells[i].txt) ELSE "")
     \/ lc[i][3] # 0}

MdDelimBad(T, lc) ==
  {i \in 1..T.ncols :
     LET al == EffAlign(T, i) IN
     \/ lc[i][4] < 3 \/ lc[i][7] # 1
     \/ (lc[i][6] = 1) # (al \in {"right", "centre"})
     \/ (al = "centre" /\ lc[i][5] # 1)
     \/ (al = "right" /\ lc[i][5] = 1)}

MdBad(st, t, res) ==
  LET T == st.tbl[t]
      ids == BodyRowIds(st, T)
  IN IF ~T.hdrp \/ T.ncols = 0 THEN (IF res.status = "error" THEN {} ELSE {<<"refusal case accepted">>})
     ELSE IF res.status # "ok" THEN {<<"refused">>}
     ELSE LET L == res.md.lines IN
       IF res.md.rest # "" THEN {<<"no final newline">>}
       ELSE IF Len(L) # 2 + Len(ids) THEN {<<"line count", 2 + Len(ids), Len(L)>>}
       ELSE {<<"line", k>> : k \in {x \in DOMAIN L :
               \/ L[x].npipes # T.ncols + 1 \/ L[x].pre # "" \/ L[x].post # "" \/ Len(L[x].cells) # T.ncols
               \/ (x = 1 /\ MdCellsBad(T, T.hdr, L[x].cells) # {})
               \/ (x = 2 /\ MdDelimBad(T, L[x].cells) # {})
               \/ (x > 2 /\ MdCellsBad(T, st.row[ids[x - 2]].cells, L[x].cells) # {})}}

\* implementation-shaped emitter (markdown.go), write level, for the fault model:
\* per line: opener, one write per cell (cell + bar), one per padding column, newline
MdWriteCount(st, t) ==
  LET T == st.tbl[t]
      line(n) == 1 + Max2(n, 1) + (T.ncols - Max2(n, 1)) + 1
  IN line(Len(T.hdr)) + line(T.ncols) + SumSeq(SeqMap(LAMBDA r : line(Len(st.row[r].cells)), BodyRowIds(st, T)))

-----------------------------------------------------------------------------
(* Writer faults (C15) *)
(*                                                                         *)
(* A render is a sequence of Write calls w[1..m]; each write site either   *)
(* checks the result (ck[i]) or ignores it.  The destination follows a     *)
(* script: "from" k (every call >= k fails), "only" k (call k fails, later *)
(* calls succeed), "partial" k (call k accepts half and fails).            *)

RECURSIVE RunWrites(_, _, _, _, _, _)
RunWrites(ws, ck, k, mode, i, acc) ==
  IF i > Len(ws) THEN [err |-> FALSE, acc |-> acc]
  ELSE LET fails == (mode = "from" /\ i >= k) \/ (mode \in {"only", "partial"} /\ i = k)
           taken == IF ~fails THEN ws[i]
                    ELSE IF mode = "partial" THEN SubSeq(ws[i], 1, Len(ws[i]) \div 2) ELSE ""
       IN IF fails /\ ck[i] THEN [err |-> TRUE, acc |-> acc \o taken]
          ELSE RunWrites(ws, ck, k, mode, i + 1, acc \o taken)

\* C15 on a write sequence: for every k and mode, an error is returned and what
\* the writer accepted is a prefix of the fault-free output
WritesOK(ws, ck) ==
  LET all == ConcatSeq(ws) IN
  \A k \in 1..Len(ws) : \A mode \in {"from", "only", "partial"} :
     LET r == RunWrites(ws, ck, k, mode, 1, "") IN r.err /\ StartsWith(all, r.acc)

\* implementation-shaped write sequences
TextWrites(st, t, dec) ==
  LET T == st.tbl[t]
      boxed == EmitText(st, t, dec)
  IN IF dec.boxless = 0 THEN [i \in DOMAIN boxed |-> boxed[i][1] \o "\n"]
     ELSE \* the boxless decoration still performs its (zero-length) rule writes
          LET content(cells) == [j \in 1..RowH(cells, T.ncols) |-> "c\n"] IN
          << "" >> \o (IF T.hdrp THEN content(T.hdr) \o << "" >> ELSE <<>>)
          \o Flatten([k \in 1..Len(T.rows) |-> IF st.row[T.rows[k]].sep THEN << "" >> ELSE content(st.row[T.rows[k]].cells)])
          \o << "" >>

MdRowWrites(txts, n) ==
  LET mx == Len(txts) IN
  << "| " >> \o [i \in 1..Max2(mx - 1, 0) |-> "c | "] \o << "c |" >> \o [i \in 1..(n - Max2(mx, 1)) |-> " |"] \o << "\n" >>

MdWrites(st, t) ==
  LET T == st.tbl[t] IN
  MdRowWrites(CellTexts(T.hdr), T.ncols) \o MdRowWrites([i \in 1..T.ncols |-> "-"], T.ncols)
  \o Flatten(SeqMap(LAMBDA r : MdRowWrites(CellTexts(st.row[r].cells), T.ncols), BodyRowIds(st, T)))

JsonWrites(st, t) ==
  LET T == st.tbl[t]
      obj(cells) == IF Len(cells) = 0 THEN << "{}" >>
                    ELSE Flatten([i \in DOMAIN cells |-> << IF i = 1 THEN "{" ELSE ", ", "k: ", "v" >>]) \o << "}" >>
      RECURSIVE Go(_, _)
      Go(k, need) ==
        IF k > Len(T.rows) THEN << "\n]\n" >>
        ELSE IF st.row[T.rows[k]].sep THEN (IF need THEN << ",\n" >> ELSE <<>>) \o << "\n" >> \o Go(k + 1, FALSE)
        ELSE (IF need THEN << ",\n" >> ELSE <<>>) \o obj(st.row[T.rows[k]].cells)
             \o Go(k + 1, \E j \in (k + 1)..Len(T.rows) : ~st.row[T.rows[j]].sep)
  IN << "[\n" >> \o Go(1, FALSE)

AllChecked(ws) == [i \in DOMAIN ws |-> TRUE]

WriterOK(st, t, fmt, dec) ==
  LET T == st.tbl[t]
      ws == CASE fmt = "csv" -> CsvWrites(st, t)
              [] fmt = "md" -> IF T.hdrp /\ T.ncols > 0 THEN MdWrites(st, t) ELSE <<>>
              [] fmt = "json" -> IF JsonErrorCase(st, T) THEN <<>> ELSE JsonWrites(st, t)
              [] fmt = "text" -> IF T.ncols > 0 THEN TextWrites(st, t, dec) ELSE <<>>
              [] OTHER -> <<>>
  IN WritesOK(ws, AllChecked(ws))

FaultsBad(res) ==
  LET f == res.faults IN
  {f.runs[i] : i \in {k \in DOMAIN f.runs : ~(f.runs[k][3] = 1 /\ f.runs[k][4] = 0 /\ f.runs[k][5] = 1)}}
  \cup (IF Len(f.runs) # 3 * f.m THEN {<<"run count">>} ELSE {})
  \cup (IF f.refpanic # "" THEN {<<"panic in the fault-free run">>} ELSE {})

-----------------------------------------------------------------------------
(* Model-level refinement checks of the emitters against the declarative parts *)

EmitOKV(st, t, fmt, variant) ==
  LET T == st.tbl[t]
      jt == IF variant = "asfound" THEN JsonTokensAsFound(st, t) ELSE JsonTokens(st, t)
  IN
  CASE fmt = "csv"  -> T.ncols = 0 \/ CsvBad(st, t, [status |-> "ok", bytes |-> ConcatSeq(CsvWrites(st, t))]) = {}
    [] fmt = "json" -> JsonTokensOK(jt) /\ Cardinality({i \in DOMAIN jt : jt[i] = "obj"}) = Len(BodyRowIds(st, T))
    [] OTHER -> TRUE

EmitOK(st, t, fmt) == EmitOKV(st, t, fmt, "repaired")

-----------------------------------------------------------------------------
(* The auto package: style strings (C19) *)

LowerAlpha == "abcdefghijklmnopqrstuvwxyz"
UpperAlpha == "ABCDEFGHIJKLMNOPQRSTUVWXYZ"
LowerCh(c) == IF \E i \in 1..26 : Ch(UpperAlpha, i) = c
              THEN Ch(LowerAlpha, CHOOSE i \in 1..26 : Ch(UpperAlpha, i) = c) ELSE c
UpperCh(c) == IF \E i \in 1..26 : Ch(LowerAlpha, i) = c
              THEN Ch(UpperAlpha, CHOOSE i \in 1..26 : Ch(LowerAlpha, i) = c) ELSE c
RECURSIVE Lower(_)
Lower(s) == IF s = "" THEN "" ELSE LowerCh(Ch(s, 1)) \o Lower(Drop(s, 1))
RECURSIVE Upper(_)
Upper(s) == IF s = "" THEN "" ELSE UpperCh(Ch(s, 1)) \o Upper(Drop(s, 1))

DotPos(s) == IF \E i \in 1..Len(s) : Ch(s, i) = "." THEN CHOOSE i \in 1..Len(s) : Ch(s, i) = "." /\ \A j \in 1..(i - 1) : Ch(s, j) # "." ELSE 0
Sec1(s) == IF DotPos(s) = 0 THEN s ELSE SubSeq(s, 1, DotPos(s) - 1)
HasRest(s) == DotPos(s) # 0
Rest(s) == Drop(s, DotPos(s))

AutoKind(style) ==
  LET f == Lower(Sec1(style)) IN
  CASE f = "csv" -> "csv" [] f = "html" -> "html" [] f = "markdown" -> "md" [] f = "json" -> "json" [] OTHER -> "text"

\* the decoration name a text style denotes: a registered name wins as a whole
\* (names may contain dots), otherwise the section
DecorNameOf(st, s) == IF s \in DOMAIN st.reg THEN s ELSE Sec1(s)

\* operational resolution of the decoration of a text style (used by the bounded model)
ResolveDec(st, style) ==
  IF Lower(Sec1(style)) = "texttable"
  THEN (IF ~HasRest(style) THEN st.defdec
        ELSE IF style \in DOMAIN st.reg THEN st.reg[style]      \* a name registered as "texttable.x" is advertised as such
        ELSE RegLookup(st, DecorNameOf(st, Rest(style))))
  ELSE RegLookup(st, DecorNameOf(st, style))

\* where the statement determines the decoration of a text style (it is silent
\* about trailing sections after a decoration name that is not registered as a whole)
DecDetermined(st, s) == s \in DOMAIN st.reg \/ ~HasRest(s)

\* relation between a style string and what auto.New(style) turned out to be:
\* a = [kind, hasdec, dec, status, empty]
AutoBad(st, style, a) ==
  LET k == AutoKind(style) IN
  IF a.status = "panic" THEN {<<"panic">>}
  ELSE IF a.kind # k THEN {<<"kind", k, a.kind>>}
  ELSE IF k # "text" THEN (IF a.status # "ok" THEN {<<"a sub-package style does not render">>} ELSE {})
  ELSE (IF a.hasdec # 1 THEN {<<"no decoration">>} ELSE {})
       \cup (IF Lower(Sec1(style)) = "texttable"
             THEN (IF ~HasRest(style) THEN (IF a.dec # st.defdec THEN {<<"plain texttable is not the default decoration">>} ELSE {})
                   ELSE IF style \in DOMAIN st.reg
                        THEN (IF a.dec # st.reg[style] THEN {<<"a listed name that starts with texttable. is not its decoration">>} ELSE {})
                   ELSE IF DecDetermined(st, Rest(style)) /\ (a.dec.empty = 1) # (RegLookup(st, Rest(style)).empty = 1)
                        THEN {<<"texttable.NAME: known-ness differs from NAME">>}
                   ELSE IF DecDetermined(st, Rest(style)) /\ a.dec.empty = 0 /\ a.dec # RegLookup(st, Rest(style))
                        THEN {<<"texttable.NAME is not NAME's decoration">>} ELSE {})
             ELSE (IF DecDetermined(st, style) /\ (a.dec.empty = 1) # (RegLookup(st, style).empty = 1)
                   THEN {<<"known-ness of the decoration name">>}
                   ELSE IF DecDetermined(st, style) /\ a.dec.empty = 0 /\ a.dec # RegLookup(st, style)
                        THEN {<<"not the registered decoration">>} ELSE {}))
       \cup (IF a.dec.empty = 1 /\ ~(a.status = "error" /\ a.empty = 1) THEN {<<"unknown decoration renders">>} ELSE {})
       \cup (IF a.dec.empty = 0 /\ a.status # "ok" THEN {<<"known decoration does not render">>} ELSE {})

st_has_reg(st) == DOMAIN st.reg # {} /\ st.defdec # <<>>

\* a render through the auto package (C10: the auto package given the corresponding style agrees with the
\* sub-package): the format is the one the style denotes, and where the statement determines the decoration
\* it is the registered one (op.rkind / op.dec are what auto.Wrap of that style actually is)
AutoRenderBad(st, op) ==
  LET style == op.auto
      k == AutoKind(style)
      dec == DecOf(op)
      \* the decoration of name n (where determined) must be the registered one, unknown iff not registered
      NameBad(n) == DecDetermined(st, n)
                    /\ ((dec.empty = 1) # (RegLookup(st, n).empty = 1) \/ (dec.empty # 1 /\ dec # RegLookup(st, n)))
  IN IF op.rkind # k THEN TRUE
     ELSE IF k # "text" THEN FALSE
     ELSE IF Lower(Sec1(style)) = "texttable"
          THEN (IF ~HasRest(style) THEN dec # st.defdec
                ELSE IF style \in DOMAIN st.reg THEN dec # st.reg[style]
                ELSE NameBad(Rest(style)))
          ELSE NameBad(style)

SubPackageStyles == {"csv", "html", "json", "markdown"}

StylesBad(st, s) ==
  (IF s.sorted # 1 THEN {<<"not sorted">>} ELSE {})
  \cup {<<"missing", n>> : n \in (SubPackageStyles \cup DOMAIN st.reg) \ Range(s.list)}
  \cup {<<"listed style does not render", s.each[i][1]>> : i \in {k \in DOMAIN s.each : s.each[k][3] # "ok"}}

\* model level: every name the listing must contain resolves to something that renders
Inv_C19(st) ==
  \A n \in SubPackageStyles \cup DOMAIN st.reg :
     AutoKind(n) # "text" \/ ResolveDec(st, n).empty = 0

-----------------------------------------------------------------------------
(* Results of calls *)

RenderBad(s, ns, op, res) ==
  LET t == RenderTbl(s, op)
      kind == RenderKind(s, op)
      T == ns.tbl[t]
  IN IF "status" \notin DOMAIN res THEN {}
     ELSE IF res.status = "panic" THEN {}     \* reported as res.panic
     ELSE IF res.status = "error" /\ res.entry = "Render" /\ res.empty # 1 THEN {"out.errtext"}
     ELSE IF kind = "text" THEN
        (IF RenderDec(s, op).empty = 1
         THEN (IF res.status # "error" THEN {"out.text"} ELSE {})         \* C17: fails closed
         ELSE IF res.status # "ok" THEN {"out.text"}
         ELSE IF T.ncols = 0 THEN {}
         ELSE IF TextBad(ns, t, RenderDec(s, op), res) # {} THEN {"out.text"} ELSE {})
     ELSE IF kind = "csv" THEN (IF CsvBad(ns, t, res) # {} THEN {"out.csv"} ELSE {})
     ELSE IF kind = "json" THEN (IF JsonBad(ns, t, res) # {} THEN {"out.json"} ELSE {})
     ELSE IF kind = "html" THEN (IF HtmlBad(ns, t, RenderHtml(s, op), res) # {} THEN {"out.html"} ELSE {})
     ELSE IF kind = "md" THEN (IF MdBad(ns, t, res) # {} THEN {"out.md"} ELSE {})
     ELSE {}

\* C09: every renderer under every style returns output or an error, never panics,
\* and an error comes with no text.  Entries: <<format, decoration, entry, status, textEmpty>>
AllBad(res) == {res.all[i] : i \in {k \in DOMAIN res.all : res.all[k][4] = "panic" \/ (res.all[k][4] = "error" /\ res.all[k][5] # 1)}}

BadResMore(s, ns, op, res) ==
  IF op.op = "render"
  THEN RenderBad(s, ns, op, res)
       \* C10: the same bytes as the same content on a core table through the format's own wrapper
       \cup (IF "same" \in DOMAIN res /\ res.same.match # 1 THEN {"res.same"} ELSE {})
       \* C14: the same bytes as the first render of this content, format and decoration
       \* (and as a first-time render of the same table through a brand-new wrapper)
       \cup (IF "rep" \in DOMAIN res /\ (res.rep.equal # 1 \/ res.rep.fresh # 1) THEN {"res.rep"} ELSE {})
       \* C06: a second, independent reader (encoding/xml, strict) sees the same token structure as the tokenizer
       \cup (IF "xmlok" \in DOMAIN res /\ res.xmlok = 0 THEN {"res.lexer"} ELSE {})
       \* C10 / C19: rendering through the auto package resolves the style as documented
       \cup (IF "auto" \in DOMAIN op /\ "rkind" \in DOMAIN op /\ st_has_reg(s) /\ AutoRenderBad(s, op) THEN {"res.autostyle"} ELSE {})
       \* C16: the same bytes as when the same scenario ran alone
       \cup (IF "solo" \in DOMAIN res /\ res.solo # 1 THEN {"res.solo"} ELSE {})
       \* the wrapper renders with the decoration that was last set on it
       \cup (IF "dec" \in DOMAIN res /\ "w" \in DOMAIN op /\ res.dec # s.wr[op.w].dec THEN {"res.dec"} ELSE {})
  ELSE IF op.op = "decor" THEN (IF DecorByNameBad(s, op, res) THEN {"res.decor"} ELSE {})
                               \cup (IF PopulateBad(op) THEN {"res.populate"} ELSE {})
  ELSE IF op.op = "regdecor" THEN (IF PopulateBad(op) THEN {"res.populate"} ELSE {})
  ELSE IF op.op = "solocmp" THEN (IF res.unequal # <<>> \/ res.compared = 0 THEN {"res.solo"} ELSE {})
  ELSE IF op.op = "renderall" THEN (IF AllBad(res) # {} THEN {"out.all"} ELSE {})
  ELSE IF op.op = "autonew" THEN (IF AutoBad(s, op.style, res.auto) # {} THEN {"res.auto"} ELSE {})
  ELSE IF op.op = "liststyles" THEN (IF StylesBad(s, res.styles) # {} THEN {"res.styles"} ELSE {})
  ELSE IF op.op = "faultsweep" THEN (IF FaultsBad(res) # {} THEN {"res.faults"} ELSE {})
  \* helper API of the text renderer (beyond the listed properties; facets x.*, owned by no check)
  ELSE IF op.op = "within" THEN (IF res.within # WithinExpected(op) THEN {"x.within"} ELSE {})
  ELSE IF op.op = "rowlines" THEN (IF res.rowlines # RowLinesExpected(ns, op) THEN {"x.rowlines"} ELSE {})
  ELSE IF op.op = "emitter" THEN (IF res.emitter # EmitterExpected(op) THEN {"x.emitter"} ELSE {})
  ELSE {}

\* result of the call itself (op-specific observations): the set of failing parts
BadRes(s, ns, op, res) ==
  {f \in {"res.panic", "res.regerr", "res.setprop", "res.metrics", "res.cblog"} :
     CASE f = "res.panic"   -> "panic" \in DOMAIN res
       [] f = "res.regerr"  -> op.op = "regcb" /\ "regerr" \in DOMAIN res /\ res.regerr # (IF RegOk(op) THEN 0 ELSE 1)
       [] f = "res.setprop" -> op.op = "setprop" /\ "err" \in DOMAIN res /\ (res.err # 0 \/ "nocolumn" \in DOMAIN res)
       [] f = "res.metrics" -> op.op = "measure" /\ "metrics" \in DOMAIN res /\ ~AgreeMetrics(op.parts, res.metrics)
       [] f = "res.cblog"   -> "cblog" \in DOMAIN res /\ ~AgreeCbLog(s, SlotsOfAll(s, op), res.cblog)}
  \cup BadResMore(s, ns, op, res)

\* re-setting keys must not grow an owner's stored state: the chain of a cell is
\* never longer than its keys -- plus, once a renderer has run, the renderers' three private
\* measuring keys (text: dimensions, lines; markdown: width) which that render may have set
AgreeChain(ns, chain) ==
  \A i \in DOMAIN chain :
    LET e == chain[i] IN
      /\ OwnerExists(ns, e[1], e[2], e[3])      \* a cell the model does not have is a mismatch, not an error
      /\ e[4] <= Cardinality(DOMAIN PropsOf(ns, e[1], e[2], e[3])) + (IF ns.rendered THEN 3 ELSE 0)

AgreeMore(s, ns, op, f, v) == TRUE

ExplainMore(s, ns, op, f, res) ==
  IF f = "out.text" /\ res.status = "ok" /\ RenderDec(s, op).empty = 0 /\ ns.tbl[RenderTbl(s, op)].ncols > 0
  THEN TextBad(ns, RenderTbl(s, op), RenderDec(s, op), res)
  ELSE IF f = "out.csv" THEN CsvBad(ns, RenderTbl(s, op), res)
  ELSE IF f = "out.json" THEN JsonBad(ns, RenderTbl(s, op), res)
  ELSE IF f = "out.html" THEN HtmlBad(ns, RenderTbl(s, op), RenderHtml(s, op), res)
  ELSE IF f = "out.md" THEN MdBad(ns, RenderTbl(s, op), res)
  ELSE IF f = "out.all" THEN AllBad(res)
  ELSE IF f = "res.auto" THEN AutoBad(s, op.style, res.auto)
  ELSE IF f = "res.styles" THEN StylesBad(s, res.styles)
  ELSE IF f = "res.faults" THEN FaultsBad(res)
  ELSE IF f = "x.within" THEN {WithinExpected(op)}
  ELSE IF f = "x.rowlines" THEN {RowLinesExpected(ns, op)}
  ELSE IF f = "x.emitter" THEN {EmitterExpected(op)}
  ELSE {}
=============================================================================
