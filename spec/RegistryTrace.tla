--------------------------- MODULE RegistryTrace ---------------------------
(***************************************************************************)
(* Trace validation for the decoration registry (C17).  The log holds one  *)
(* line per registry operation in the order in which the operations took   *)
(* effect: the hook of the verif build fires inside the critical section   *)
(* and stamps a sequence number under the registry's own lock, so the      *)
(* order is the linearization order, not a guess.  The specification is    *)
(* the sequential registry of Registry.tla (the Body step): every lookup   *)
(* and listing must be the answer of that registry at its position.        *)
(* "probe" lines report whether a second operation stayed blocked while a  *)
(* first one was held inside its critical section; that is required        *)
(* whenever one of the two is a registration (readers may overlap).        *)
(***************************************************************************)
EXTENDS Integers, Sequences, FiniteSets, TLC, Json, CSV

CONSTANTS TraceFile, MisFile
Trace == ndJsonDeserialize(TraceFile)

VARIABLES reg, l, nmis
vars == <<reg, l, nmis>>

Empty == "EMPTY"
Lookup(r, n) == IF n \in DOMAIN r THEN r[n] ELSE Empty
Range(s) == {s[i] : i \in DOMAIN s}

Init == reg = <<>> /\ l = 1 /\ nmis = 0

Bad(ev) ==
  CASE ev.ev = "named"  -> ev.res # Lookup(reg, ev.name)
    [] ev.ev = "list"   -> \/ Range(ev.res) # DOMAIN reg
                           \/ Len(ev.res) # Cardinality(DOMAIN reg)
                           \/ ev.sorted # 1
    \* an override made before the registry was first read must be what the name denotes afterwards
    [] ev.ev = "init"   -> ev.early # <<>> /\ \A i \in DOMAIN ev.names : ev.names[i][1] = ev.early[1] => ev.names[i][2] # ev.early[2]
    \* quiescent style listing (auto.ListStyles): sorted and showing every registered name and the four sub-packages
    [] ev.ev = "styles" -> ev.sorted # 1 \/ ~((DOMAIN reg \cup {"csv", "html", "json", "markdown"}) \subseteq Range(ev.res))
    [] ev.ev = "probe"  -> ev.must = 1 /\ ev.blocked # 1    \* a registration excludes everything; reads may overlap
    [] ev.ev = "nohook" -> TRUE
    [] OTHER -> FALSE

Facet(ev) == CASE ev.ev = "probe" -> "reg.mutex" [] ev.ev = "nohook" -> "reg.mutex" [] ev.ev = "init" -> "reg.early"
               [] OTHER -> "reg." \o ev.ev

Done(n) == CSVWrite("%1$s", <<ToJson([done |-> TRUE, lines |-> Len(Trace), mismatches |-> n])>>, MisFile)

Next ==
  /\ l <= Len(Trace)
  /\ l' = l + 1
  /\ LET ev == Trace[l] IN
     /\ reg' = CASE ev.ev = "init" -> [n \in {ev.names[i][1] : i \in DOMAIN ev.names} |->
                                         ev.names[CHOOSE i \in DOMAIN ev.names : ev.names[i][1] = n][2]]
                 [] ev.ev = "register" -> [n \in DOMAIN reg \cup {ev.name} |-> IF n = ev.name THEN ev.did ELSE reg[n]]
                 [] OTHER -> reg
     /\ nmis' = IF Bad(ev) THEN nmis + 1 ELSE nmis
     /\ (~Bad(ev) \/ CSVWrite("%1$s", <<ToJson([scen |-> IF "scen" \in DOMAIN ev THEN ev.scen ELSE "", line |-> l,
                                                facet |-> Facet(ev), op |-> ev.ev,
                                                detail |-> [obs |-> ev,
                                                            hint |-> IF ev.ev = "named" THEN <<Lookup(reg, ev.name)>> ELSE <<>>]])>>, MisFile))
     /\ (l < Len(Trace) \/ Done(nmis'))

Spec == Init /\ [][Next]_vars
=============================================================================
