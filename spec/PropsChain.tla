----------------------------- MODULE PropsChain -----------------------------
(***************************************************************************)
(* Implementation-shaped model of property storage (properties.go): each   *)
(* owner holds the head of a singly linked chain of (key, value) links;    *)
(* SetProperty first strips the key from the chain and then pushes a new   *)
(* link (or, for a nil value, only strips); a by-value copy of an owner    *)
(* (a Cell copied with `c2 := *c1`, or added to a row with Row.Add) copies *)
(* the head pointer only, so the links are SHARED between the copies.      *)
(*                                                                         *)
(* The abstract meaning (Tabular.tla) is one independent key -> value map  *)
(* per owner.  The refinement invariant below says the chain of every      *)
(* owner denotes exactly its abstract map.  With Strip = "rebuild" (links  *)
(* above the removed one are re-created: the repaired code) TLC finds the  *)
(* invariant to hold for all interleavings of set / delete / copy; with    *)
(* Strip = "inplace" (the link is unlinked by editing its predecessor: the *)
(* code as found) TLC produces the four-step counterexample of defect D13: *)
(* set k1, set k2, copy, set k1 on the copy -- the original loses k1.      *)
(***************************************************************************)
EXTENDS Integers, Sequences, FiniteSets, TLC

CONSTANTS Owners, Keys, Vals, MaxOps, Strip

VARIABLES heap,   \* Seq of links [key, val, next]; next = 0 ends the chain
          head,   \* [Owners -> 0..Len(heap)]
          abs,    \* [Owners -> [subset of Keys -> Vals]]   the abstract maps
          live,   \* owners that exist (copies come into being by Copy)
          nops
vars == <<heap, head, abs, live, nops>>

First == CHOOSE o \in Owners : TRUE

Init == /\ heap = <<>> /\ head = [o \in Owners |-> 0] /\ abs = [o \in Owners |-> <<>>]
        /\ live = {First} /\ nops = 0

\* the map a chain denotes: the first link with a key wins
RECURSIVE ChainMap(_, _)
ChainMap(h, n) ==
  IF n = 0 THEN <<>>
  ELSE LET rest == ChainMap(h, h[n].next) IN
       [k \in DOMAIN rest \cup {h[n].key} |-> IF k = h[n].key THEN h[n].val ELSE rest[k]]

RECURSIVE Holds(_, _, _)
Holds(h, n, k) == n # 0 /\ (h[n].key = k \/ Holds(h, h[n].next, k))

\* --- strip by rebuilding the links above the removed one (copy on write)
RECURSIVE StripRebuild(_, _, _)
StripRebuild(h, n, k) ==          \* returns [heap, head]
  IF n = 0 THEN [heap |-> h, head |-> 0]
  ELSE IF h[n].key = k THEN [heap |-> h, head |-> h[n].next]
  ELSE IF ~Holds(h, h[n].next, k) THEN [heap |-> h, head |-> n]          \* nothing below: share as is
  ELSE LET r == StripRebuild(h, h[n].next, k)
           h2 == Append(r.heap, [key |-> h[n].key, val |-> h[n].val, next |-> r.head])
       IN [heap |-> h2, head |-> Len(h2)]

\* --- strip by unlinking in place (edits the predecessor link, which copies share)
RECURSIVE UnlinkBelow(_, _, _)
UnlinkBelow(h, parent, k) ==
  LET this == h[parent].next IN
  IF this = 0 THEN h
  ELSE IF h[this].key = k THEN [h EXCEPT ![parent].next = h[this].next]
  ELSE UnlinkBelow(h, this, k)

StripInPlace(h, n, k) ==
  IF n = 0 THEN [heap |-> h, head |-> 0]
  ELSE IF h[n].key = k THEN [heap |-> h, head |-> h[n].next]
  ELSE [heap |-> UnlinkBelow(h, n, k), head |-> n]

DoStrip(h, n, k) == IF Strip = "inplace" THEN StripInPlace(h, n, k) ELSE StripRebuild(h, n, k)

MapSet(m, k, v) == [x \in DOMAIN m \cup {k} |-> IF x = k THEN v ELSE m[x]]
MapDel(m, k) == [x \in (DOMAIN m) \ {k} |-> m[x]]

Set(o, k, v) ==
  /\ o \in live
  /\ LET s == DoStrip(heap, head[o], k)
         h2 == Append(s.heap, [key |-> k, val |-> v, next |-> s.head])
     IN /\ heap' = h2 /\ head' = [head EXCEPT ![o] = Len(h2)]
  /\ abs' = [abs EXCEPT ![o] = MapSet(@, k, v)]
  /\ UNCHANGED live

Delete(o, k) ==
  /\ o \in live
  /\ LET s == DoStrip(heap, head[o], k) IN heap' = s.heap /\ head' = [head EXCEPT ![o] = s.head]
  /\ abs' = [abs EXCEPT ![o] = MapDel(@, k)]
  /\ UNCHANGED live

Copy(o, c) ==      \* c := *o  (a struct copy: the head pointer is copied, the links are shared)
  /\ o \in live /\ c \notin live
  /\ head' = [head EXCEPT ![c] = head[o]] /\ abs' = [abs EXCEPT ![c] = abs[o]]
  /\ live' = live \cup {c} /\ UNCHANGED heap

Next == /\ nops < MaxOps /\ nops' = nops + 1
        /\ \/ \E o \in Owners, k \in Keys, v \in Vals : Set(o, k, v)
           \/ \E o \in Owners, k \in Keys : Delete(o, k)
           \/ \E o, c \in Owners : Copy(o, c)
Spec == Init /\ [][Next]_vars

\* refinement: every live owner's chain denotes its abstract map
Refines == \A o \in live : ChainMap(heap, head[o]) = abs[o]

\* re-setting keys does not grow an owner's chain: at most one link per key
RECURSIVE ChainLen(_, _)
ChainLen(h, n) == IF n = 0 THEN 0 ELSE 1 + ChainLen(h, h[n].next)
NoGrowth == \A o \in live : ChainLen(heap, head[o]) = Cardinality(DOMAIN abs[o])

Inv == Refines /\ NoGrowth
View == <<[o \in Owners |-> ChainMap(heap, head[o])], abs, live, nops,
          \* which links are shared between owners matters for what an in-place edit does
          [o \in Owners |-> head[o]], heap>>
=============================================================================
