------------------------------ MODULE Registry ------------------------------
(***************************************************************************)
(* The decoration registry (texttable/decoration/registry.go): a map from  *)
(* name to decoration behind a lock.  Every operation is lock; body;       *)
(* unlock -- three separately enabled steps, so that TLC explores every    *)
(* interleaving of the processes.  The body step is the linearization      *)
(* point (the hook of the verif build fires there, under the lock).        *)
(* The lock is modelled as a readers/writer lock: a registration excludes  *)
(* everything, lookups and listings exclude registrations only.  That is   *)
(* all the property needs; the implementation's plain mutex (which also    *)
(* serialises readers) is one refinement of it, a RWMutex another.         *)
(*                                                                         *)
(* Processes run fixed programs: sequences of                              *)
(*   [op |-> "register", name, d]  [op |-> "named", name]  [op |-> "list"] *)
(***************************************************************************)
EXTENDS Integers, Sequences, FiniteSets, TLC

CONSTANTS Procs, Prog, Builtins,     \* Prog: [Procs -> Seq(op)], Builtins: [name -> decoration id]
          Stamp                      \* TRUE: calls and returns read the clock (what an outside observer sees);
                                     \* FALSE: no clock (a much smaller state space: used to enumerate the
                                     \* linearization orders of the larger program sets)

VARIABLES reg,      \* name -> decoration id
          lock,     \* [writer |-> 0 or the registering process, readers |-> set of processes reading]
          pc,       \* [Procs -> "idle" | "locked" | "done-body"]
          ip,       \* [Procs -> index of the current op]
          results,  \* [Procs -> Seq(result)]
          order,    \* linearization order: Seq(<<proc, index>>)
          clk,      \* a clock read when an operation takes its lock and when it releases it
          iv        \* [Procs -> Seq([s, e])]: those two readings per operation (e = 0 while in progress)
vars == <<reg, lock, pc, ip, results, order, clk, iv>>

Empty == "EMPTY"
Lookup(r, n) == IF n \in DOMAIN r THEN r[n] ELSE Empty

\* sorted listing of a set of strings is left abstract in the model: the listing
\* is the set of names (sortedness is a property of the real output, checked in
\* trace validation by comparing with the sorted expectation the driver computes)
Listing(r) == DOMAIN r

IsWrite(o) == o.op = "register"
Free == lock.writer = 0 /\ lock.readers = {}
Holds(p) == lock.writer = p \/ p \in lock.readers

Init == /\ reg = Builtins /\ lock = [writer |-> 0, readers |-> {}]
        /\ pc = [p \in Procs |-> "idle"] /\ ip = [p \in Procs |-> 1]
        /\ results = [p \in Procs |-> <<>>] /\ order = <<>>
        /\ clk = 0 /\ iv = [p \in Procs |-> <<>>]

CurOp(p) == Prog[p][ip[p]]

\* the call begins (this is all an observer outside sees of it until it returns)
Call(p) == /\ pc[p] = "idle" /\ ip[p] <= Len(Prog[p])
           /\ pc' = [pc EXCEPT ![p] = "called"]
           /\ IF Stamp THEN clk' = clk + 1 /\ iv' = [iv EXCEPT ![p] = Append(@, [s |-> clk + 1, e |-> 0])]
              ELSE UNCHANGED <<clk, iv>>
           /\ UNCHANGED <<reg, lock, ip, results, order>>

Lock(p) == /\ pc[p] = "called"
           /\ IF IsWrite(CurOp(p)) THEN Free /\ lock' = [lock EXCEPT !.writer = p]
              ELSE lock.writer = 0 /\ lock' = [lock EXCEPT !.readers = @ \cup {p}]
           /\ pc' = [pc EXCEPT ![p] = "locked"]
           /\ UNCHANGED <<reg, ip, results, order, clk, iv>>

Body(p) == /\ pc[p] = "locked" /\ Holds(p)
           /\ LET o == CurOp(p) IN
              /\ reg' = IF o.op = "register"
                        THEN [n \in DOMAIN reg \cup {o.name} |-> IF n = o.name THEN o.d ELSE reg[n]]
                        ELSE reg
              /\ results' = [results EXCEPT ![p] = Append(@,
                               CASE o.op = "register" -> "ok"
                                 [] o.op = "named" -> Lookup(reg, o.name)
                                 [] o.op = "list" -> Listing(reg))]
           /\ order' = Append(order, <<p, ip[p]>>)
           /\ pc' = [pc EXCEPT ![p] = "done-body"]
           /\ UNCHANGED <<lock, ip, clk, iv>>

Unlock(p) == /\ pc[p] = "done-body" /\ Holds(p)
             /\ lock' = IF lock.writer = p THEN [lock EXCEPT !.writer = 0] ELSE [lock EXCEPT !.readers = @ \ {p}]
             /\ pc' = [pc EXCEPT ![p] = "unlocked"]
             /\ UNCHANGED <<reg, ip, results, order, clk, iv>>

\* the call returns
Return(p) == /\ pc[p] = "unlocked"
             /\ pc' = [pc EXCEPT ![p] = "idle"] /\ ip' = [ip EXCEPT ![p] = @ + 1]
             /\ IF Stamp THEN clk' = clk + 1 /\ iv' = [iv EXCEPT ![p][ip[p]].e = clk + 1]
                ELSE UNCHANGED <<clk, iv>>
             /\ UNCHANGED <<reg, lock, results, order>>

Next == \E p \in Procs : Call(p) \/ Lock(p) \/ Body(p) \/ Unlock(p) \/ Return(p)
Spec == Init /\ [][Next]_vars

AllDone == \A p \in Procs : ip[p] > Len(Prog[p])

-----------------------------------------------------------------------------
(* C17 on the model *)

\* a registration in progress excludes every other operation; readers may overlap
InCS == {p \in Procs : pc[p] \in {"locked", "done-body"}}
MutualExclusion ==
  /\ \A p \in InCS : Holds(p)
  /\ \A p \in InCS : IsWrite(CurOp(p)) => InCS = {p}
  /\ (lock.writer # 0 => lock.readers = {})

\* the sequential meaning of the registry along the linearization order
RECURSIVE Replay(_, _)
Replay(r, k) ==   \* registry after the first k body steps
  IF k = 0 THEN Builtins
  ELSE LET prev == Replay(r, k - 1)
           o == Prog[order[k][1]][order[k][2]]
       IN IF o.op = "register"
          THEN [n \in DOMAIN prev \cup {o.name} |-> IF n = o.name THEN o.d ELSE prev[n]]
          ELSE prev

\* every result is the answer of the sequential registry at its own body step
Linearizable ==
  \A k \in DOMAIN order :
    LET p == order[k][1]  i == order[k][2]  o == Prog[p][i]  before == Replay(reg, k - 1) IN
      i <= Len(results[p]) =>
        CASE o.op = "named" -> results[p][i] = Lookup(before, o.name)
          [] o.op = "list"  -> results[p][i] = DOMAIN before
          [] OTHER -> TRUE

\* a lookup returns a decoration registered under that name, or Empty if none yet
LookupSound ==
  \A p \in Procs : \A i \in DOMAIN results[p] :
    Prog[p][i].op = "named" =>
      \/ results[p][i] = Empty /\ Prog[p][i].name \notin DOMAIN Builtins
      \/ results[p][i] = Lookup(Builtins, Prog[p][i].name) /\ Prog[p][i].name \in DOMAIN Builtins
      \/ \E q \in Procs : \E j \in DOMAIN Prog[q] :
           Prog[q][j].op = "register" /\ Prog[q][j].name = Prog[p][i].name /\ Prog[q][j].d = results[p][i]

\* once registrations have finished: the latest (in body order) wins; listing complete
FinalState ==
  AllDone => /\ reg = Replay(reg, Len(order))
             /\ \A n \in DOMAIN Builtins : n \in DOMAIN reg
             /\ \A p \in Procs : \A i \in DOMAIN Prog[p] : Prog[p][i].op = "register" => Prog[p][i].name \in DOMAIN reg

\* a listing contains every built-in and every name registered before it (in body order)
ListingComplete ==
  \A p \in Procs : \A i \in DOMAIN results[p] :
    Prog[p][i].op = "list" => DOMAIN Builtins \subseteq results[p][i]

-----------------------------------------------------------------------------
(* What an observer OUTSIDE the lock can tell.  It sees only when each call  *)
(* began and ended (the Call and Return steps; a call may wait for the lock   *)
(* in between, so intervals of different calls overlap although their        *)
(* critical sections do not).  A precedes B iff A ended before B began.      *)
(* The lock discipline                                                       *)
(* above implies the "regular register" reading of C17 that                  *)
(* RegistryTrace.tla demands of the real registry's call/return log:         *)

Ops == UNION {{<<p, i>> : i \in 1..Len(iv[p])} : p \in Procs}   \* the operations begun so far
OpOf(x) == Prog[x[1]][x[2]]
Iv(x) == iv[x[1]][x[2]]
Completed(x) == Iv(x).e # 0
Before(x, y) == Completed(x) /\ Iv(x).e < Iv(y).s

Writes(n) == {x \in Ops : OpOf(x).op = "register" /\ OpOf(x).name = n}

\* a completed lookup returned a decoration registered under its name by a registration that began before the
\* lookup ended and was not overwritten -- by one that began after it ended and ended before the lookup began;
\* what the name denoted at the start only while no registration of it had ended before the lookup began
LookupRegular ==
  \A x \in Ops : (OpOf(x).op = "named" /\ Completed(x)) =>
    LET n == OpOf(x).name
        overwritten(w) == \E w2 \in Writes(n) : Before(w, w2) /\ Before(w2, x)
        cand == {OpOf(w).d : w \in {v \in Writes(n) : Iv(v).s < Iv(x).e /\ ~overwritten(v)}}
                \cup (IF \E w \in Writes(n) : Before(w, x) THEN {} ELSE {Lookup(Builtins, n)})
    IN results[x[1]][x[2]] \in cand

\* a completed listing holds every built-in and every name whose registration ended before it began, and
\* nothing whose registration had not at least begun before it ended
ListingRegular ==
  \A x \in Ops : (OpOf(x).op = "list" /\ Completed(x)) =>
    LET must == DOMAIN Builtins \cup {OpOf(w).name : w \in {v \in Ops : OpOf(v).op = "register" /\ Before(v, x)}}
        may == DOMAIN Builtins \cup {OpOf(w).name : w \in {v \in Ops : OpOf(v).op = "register" /\ Iv(v).s < Iv(x).e}}
    IN must \subseteq results[x[1]][x[2]] /\ results[x[1]][x[2]] \subseteq may

\* "the latest once registrations have finished": two completed lookups of a name, neither overlapping any
\* registration of that name and with no registration of it between them, agree (this is what fixes WHICH of two
\* overlapping last registrations is the latest)
Overlaps(x, y) == ~Before(x, y) /\ ~Before(y, x)
QuiescentStable ==
  \A x, y \in Ops :
    (/\ OpOf(x).op = "named" /\ OpOf(y).op = "named" /\ OpOf(x).name = OpOf(y).name
     /\ Completed(x) /\ Completed(y) /\ Before(x, y)
     /\ \A w \in Writes(OpOf(x).name) : Before(w, x))
    => results[x[1]][x[2]] = results[y[1]][y[2]]

Regular == LookupRegular /\ ListingRegular /\ QuiescentStable
=============================================================================
