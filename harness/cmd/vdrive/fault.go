package main

import (
	"bytes"
	"context"
	"errors"
	"fmt"
	"io"
	"os"
	"syscall"
)

// scriptedWriter fails according to a script:
//
//	from:    every Write call with index >= k fails
//	only:    only call k fails; later calls succeed again
//	partial: call k accepts j bytes (j < len) and returns an error; later calls succeed
type scriptedWriter struct {
	mode     string
	k        int
	calls    int
	accepted []byte
	err      error // what the failing call returns (nil: errScripted)
}

var errScripted = errors.New("scripted write failure")

// The identity of a writer's error must not matter ("a failing io.Writer ALWAYS surfaces as a returned error"):
// the failing call returns, in turn, an ad-hoc error, the errors of closed pipes and files, EOF, a short write, a
// cancelled context, and wrapped forms of them.
var writerErrors = []error{
	errScripted,
	io.ErrClosedPipe,
	syscall.EPIPE,
	&os.PathError{Op: "write", Path: "/dev/stdout", Err: syscall.EPIPE},
	io.EOF,
	io.ErrShortWrite,
	os.ErrClosed,
	context.Canceled,
	fmt.Errorf("wrapped: %w", io.ErrClosedPipe),
	io.ErrUnexpectedEOF,
	syscall.ECONNRESET,
}

func (s *scriptedWriter) failure() error {
	if s.err != nil {
		return s.err
	}
	return errScripted
}

func (s *scriptedWriter) Write(p []byte) (int, error) {
	s.calls++
	fail := false
	switch s.mode {
	case "from":
		fail = s.calls >= s.k
	case "only", "partial":
		fail = s.calls == s.k
	}
	if !fail {
		s.accepted = append(s.accepted, p...)
		return len(p), nil
	}
	if s.mode == "partial" {
		j := len(p) / 2
		s.accepted = append(s.accepted, p[:j]...)
		return j, s.failure()
	}
	return 0, s.failure()
}

type countingWriter struct {
	calls int
	b     []byte
}

func (c *countingWriter) Write(p []byte) (int, error) {
	c.calls++
	c.b = append(c.b, p...)
	return len(p), nil
}

// faultSweep (C15): one fault-free run gives the number of Write calls m and the
// reference bytes; then every k in 1..m x {from, only, partial} is executed under
// recover. Per run: [k, mode, errNonNil, panicked, acceptedIsPrefix].
func (w *world) faultSweep(op M) M {
	tg := w.target(op)
	run := func(wr io.Writer) (err error, panicked string) {
		defer func() {
			if r := recover(); r != nil {
				mustBeLibrary(r, "faultsweep")
				panicked = fmt.Sprint(r)
			}
		}()
		return tg.renderTo(wr), ""
	}
	cw := &countingWriter{}
	err0, p0 := run(cw)
	res := M{"fmt": tg.kind, "m": cw.calls, "refok": b2i(err0 == nil && p0 == ""), "refpanic": p0}
	runs := []interface{}{}
	for k := 1; k <= cw.calls; k++ {
		for mi, mode := range []string{"from", "only", "partial"} {
			// (the error identities rotate over calls, modes, sweeps and scenarios -- seeded by the scenario id, so that a
			// scenario re-run alone meets the same ones)
			sw := &scriptedWriter{mode: mode, k: k, err: writerErrors[(k+mi*4+w.salt)%len(writerErrors)]}
			err, p := run(sw)
			runs = append(runs, []interface{}{k, mode, b2i(err != nil), b2i(p != ""), b2i(bytes.HasPrefix(cw.b, sw.accepted))})
		}
	}
	faultRuns.Add(int64(len(runs)))
	w.salt += 5
	res["runs"] = runs
	return res
}
