------------------------------ MODULE MCErrors ------------------------------
(***************************************************************************)
(* C11, bounded models.                                                    *)
(*  Family "ec":  all sequences of raw error-container operations          *)
(*     (AddError, AddErrorList with nil / empty / mixed lists, a list that *)
(*     is another container's or its own Errors()) on constructed,         *)
(*     zero-value and nil containers.                                      *)
(*  Family "tbl": table-building histories in which errors are recorded on *)
(*     rows before and after they join the table, on the table, by misuse  *)
(*     (a cell added to a separator) and by callbacks registered at every  *)
(*     level that fail at add time or at render time.                      *)
(***************************************************************************)
EXTENDS TabularRender, Json, CSV
CONSTANTS Family, MaxHist, MaxEc, MaxRowsE, MaxCbs, GenFile
VARIABLES st, hist
vars == <<st, hist>>

It(s) == [k |-> "str", s |-> s, tx |-> [s |-> << <<s, Len(s)>> >>]]
E == "E" \o ToString(Len(hist))       \* a fresh error id per operation
E2 == "F" \o ToString(Len(hist))

EcOps ==
  (IF Len(st.ec) < MaxEc THEN {[op |-> "ecnew", kind |-> k] : k \in {"made", "zero", "nil"}} ELSE {})
  \cup {[op |-> "ecadd", ec |-> c, e |-> e] : c \in DOMAIN st.ec, e \in {E, "nil"}}
  \cup {[op |-> "ecaddlist", ec |-> c, list |-> l] : c \in DOMAIN st.ec,
          l \in {<<>>, <<E>>, <<"nil">>, <<"nil", E>>, <<E, "nil">>, <<E, E2>>}}
  \cup {[op |-> "ecaddlist", ec |-> c, from |-> d] : c, d \in DOMAIN st.ec}
  \cup {[op |-> "ecaddlist", ec |-> c, nillist |-> 1] : c \in DOMAIN st.ec}

T == st.tbl[1]
Detached == {r \in DOMAIN st.row : st.row[r].tbl = 0}
NOps(name) == Cardinality({i \in DOMAIN hist : hist[i].op = name})
CbMenu ==
  {[owner |-> [kind |-> "table", t |-> 1], time |-> "add", target |-> "row"],
   [owner |-> [kind |-> "table", t |-> 1], time |-> "add", target |-> "cell"],
   [owner |-> [kind |-> "table", t |-> 1], time |-> "pre", target |-> "itself"],
   [owner |-> [kind |-> "table", t |-> 1], time |-> "render", target |-> "cell"],
   [owner |-> [kind |-> "table", t |-> 1], time |-> "post", target |-> "cell"]}
  \cup (IF T.ncols >= 1 THEN
        {[owner |-> [kind |-> "column", t |-> 1, n |-> 1], time |-> "add", target |-> "cell"],
         [owner |-> [kind |-> "column", t |-> 1, n |-> 1], time |-> "pre", target |-> "cell"],
         [owner |-> [kind |-> "column", t |-> 1, n |-> 1], time |-> "post", target |-> "itself"]} ELSE {})
  \cup UNION {{[owner |-> [kind |-> "row", r |-> r], time |-> "add", target |-> "cell"],
               [owner |-> [kind |-> "row", r |-> r], time |-> "post", target |-> "cell"],
               [owner |-> [kind |-> "row", r |-> r], time |-> "pre", target |-> "itself"]} :
              r \in {x \in DOMAIN st.row : ~st.row[x].sep}}
  \cup UNION {{[owner |-> [kind |-> "cell", r |-> r, c |-> 1], time |-> "render", target |-> "itself"]} :
              r \in {x \in DOMAIN st.row : Len(st.row[x].cells) >= 1}}

TblOps ==
  (IF Len(st.row) < MaxRowsE THEN
     {[op |-> "newrow", how |-> "new", t |-> 1, cap |-> 0], [op |-> "sep", t |-> 1],
      [op |-> "rowitems", t |-> 1, items |-> <<It("a")>>], [op |-> "appendrow", t |-> 1]} ELSE {})
  \cup {[op |-> "rowerr", r |-> r, e |-> e] : r \in {x \in DOMAIN st.row : ~st.row[x].sep}, e \in {E}}
  \cup (IF NOps("tblerr") < 1 THEN {[op |-> "tblerr", t |-> 1, e |-> E]} ELSE {})
  \cup {[op |-> "addrow", t |-> 1, r |-> r] : r \in Detached}
  \cup {[op |-> "rowadd", r |-> r, item |-> It("c")] : r \in {x \in DOMAIN st.row : Len(st.row[x].cells) < 1}}
  \cup (IF NOps("headers") < 1 THEN {[op |-> "headers", t |-> 1, items |-> <<It("h")>>]} ELSE {})
  \cup (IF Len(st.cb) < MaxCbs THEN
          {[op |-> "regcb", t |-> 1, owner |-> m.owner, time |-> m.time, target |-> m.target, fails |-> 1] : m \in CbMenu}
        ELSE {})
  \cup (IF NOps("rendercbs") < 2 /\ Len(st.cb) > 0 THEN {[op |-> "rendercbs", t |-> 1]} ELSE {})

\* Family "two": two tables; rows (with errors recorded before and after) join either table, both, or one of them
\* twice; a failing column callback of either table at render time
TwoOps ==
  (IF Len(st.row) < MaxRowsE THEN
     {[op |-> "newrow", how |-> "new", t |-> 1, cap |-> 0]} \cup {[op |-> "rowitems", t |-> t, items |-> <<It("a")>>] : t \in {1, 2}}
   ELSE {})
  \cup {[op |-> "rowerr", r |-> r, e |-> e] : r \in {x \in DOMAIN st.row : ~st.row[x].sep}, e \in {E}}
  \cup {[op |-> "tblerr", t |-> t, e |-> E] : t \in {x \in {1, 2} : Cardinality({i \in DOMAIN hist : hist[i].op = "tblerr" /\ hist[i].t = x}) < 1}}
  \cup (IF NOps("addrow") < 3 THEN {[op |-> "addrow", t |-> t, r |-> r] : t \in {1, 2}, r \in {x \in DOMAIN st.row : ~st.row[x].sep}} ELSE {})
  \cup {[op |-> "rowadd", r |-> r, item |-> It("c")] : r \in {x \in DOMAIN st.row : Len(st.row[x].cells) < 1}}
  \cup (IF Len(st.cb) < MaxCbs THEN
          {[op |-> "regcb", t |-> t, owner |-> [kind |-> "column", t |-> t, n |-> 1], time |-> "post", target |-> "cell", fails |-> 1] :
             t \in {x \in {1, 2} : st.tbl[x].ncols >= 1}}
        ELSE {})
  \cup (IF NOps("rendercbs") < 2 /\ Len(st.cb) > 0 THEN {[op |-> "rendercbs", t |-> t] : t \in {1, 2}} ELSE {})

Ops == IF Family = "ec" THEN EcOps ELSE IF Family = "two" THEN TwoOps ELSE TblOps

NewT == [op |-> "newtable", via |-> "core"]
Init == IF Family = "two"
        THEN /\ st = Apply(Apply(InitState, NewT, <<>>), NewT, <<>>) /\ hist = <<NewT, NewT>>
        ELSE /\ st = Apply(InitState, NewT, <<>>) /\ hist = <<NewT>>
Next == /\ Len(hist) < MaxHist
        /\ \E op \in Ops :
             /\ st' = Apply(st, op, ImplEvents(st, SlotsOfAll(st, op)))
             /\ hist' = Append(hist, op)
Spec == Init /\ [][Next]_vars
View == st
Emit == GenFile = "" \/ CSVWrite("%1$s", <<ToJson(hist')>>, GenFile)

\* every error raised so far (one id per operation that raises; callbacks raise CBn:k)
AllErrLists == {st.tbl[t].errs : t \in DOMAIN st.tbl} \cup {st.row[r].pend : r \in DOMAIN st.row}
                \cup {st.ec[e].errs : e \in DOMAIN st.ec}
NoDup(es) == \A i, j \in DOMAIN es : i # j => es[i].id # es[j].id \/ es[i].id = "LIB"

Inv == /\ Inv_C02(st) /\ Inv_C11_NoPendingOnAttached(st)
       \* exactly once: no error id twice in one list, none in two lists of the table world
       /\ \A es \in AllErrLists : ~Has(Ids(es), "nil")
       /\ \A es \in AllErrLists \ {st.ec[e].errs : e \in DOMAIN st.ec} : NoDup(es)
       /\ \A r \in DOMAIN st.row : \A i \in DOMAIN st.row[r].pend :
             \A t \in DOMAIN st.tbl : ~Has(Ids(st.tbl[t].errs), st.row[r].pend[i].id)

\* none lost: an error in the table's list stays there, in order
ErrsAppendOnly ==
  [][\A t \in DOMAIN st.tbl : SubSeq(st'.tbl[t].errs, 1, Len(st.tbl[t].errs)) = st.tbl[t].errs]_vars
=============================================================================
