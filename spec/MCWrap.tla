------------------------------- MODULE MCWrap -------------------------------
(***************************************************************************)
(* C10 / C14, bounded model of creation paths, wrapper nestings and render *)
(* sequences.  A scenario creates the table down one creation path (core   *)
(* New, a sub-package's New, auto.New of a style), builds one of a few     *)
(* contents through whatever object the creator returned, then interleaves *)
(* Wrap calls (over the table or over the latest wrapper: nesting) with    *)
(* renders through any wrapper's methods, the package-level functions or   *)
(* the auto package.                                                       *)
(* In the specification the output of a render is a function of the core   *)
(* table's content, the format and the decoration only -- that is the      *)
(* statement of C10 and C14; the model lists the paths, the real library   *)
(* has to agree on all of them.                                            *)
(***************************************************************************)
EXTENDS TabularRender, Json, CSV
CONSTANTS Content, Creators, WrapKinds, MaxWraps, MaxRenders, Targets, DecorSwitch, GenFile
VARIABLES st, hist, bi
vars == <<st, hist, bi>>

L(s) == << <<s, Len(s)>> >>
It(s) == [k |-> "str", s |-> s, enc |-> "\"" \o s \o "\"", tx |-> [s |-> L(s)], txe |-> [s |-> "\"" \o s \o "\""]]
Ml == [k |-> "str", s |-> "a\nbb", enc |-> "E", tx |-> [s |-> << <<"a", 1>>, <<"bb", 2>> >>], txe |-> [s |-> "E"]]

Script ==
  CASE Content = "c1" -> << [op |-> "headers", t |-> 1, items |-> <<It("h"), It("ii")>>],
                            [op |-> "rowitems", t |-> 1, items |-> <<It("a"), Ml>>],
                            [op |-> "sep", t |-> 1],
                            [op |-> "rowitems", t |-> 1, items |-> <<It("ccc")>>] >>
    [] Content = "c2" -> << [op |-> "rowitems", t |-> 1, items |-> <<It("a")>>] >>
    [] Content = "c3" -> << [op |-> "headers", t |-> 1, items |-> <<It("h")>>],
                            [op |-> "setprop", owner |-> [kind |-> "column", t |-> 1, n |-> 0], k |-> "k_align", v |-> "vR"],
                            [op |-> "appendrow", t |-> 1],
                            [op |-> "rowadd", r |-> 1, item |-> It("late")] >>

ViaKind(v) == CASE v = "core" -> "none" [] v = "texttable" -> "text" [] v = "markdown" -> "md"
                [] v = "auto:csv" -> "csv" [] v = "auto:utf8-light" -> "text" [] OTHER -> v
NewT(v) == IF v \in {"auto:csv", "auto:utf8-light"}
           THEN [op |-> "newtable", via |-> "auto", style |-> SubSeq(v, 6, Len(v)), rkind |-> ViaKind(v)]
           ELSE [op |-> "newtable", via |-> v]

NRenders == Cardinality({i \in DOMAIN hist : hist[i].op = "render"})
NWraps == Cardinality({i \in DOMAIN hist : hist[i].op = "wrap"})
Top == Len(st.wr)

Ops ==
  (IF bi <= Len(Script) THEN {Script[bi]} ELSE {})
  \cup (IF bi > Len(Script) /\ NWraps < MaxWraps
        THEN {[op |-> "wrap", kind |-> k, over |-> [t |-> 1]] : k \in WrapKinds}
             \cup (IF Top > 0 THEN {[op |-> "wrap", kind |-> k, over |-> [w |-> Top]] : k \in WrapKinds} ELSE {})
        ELSE {})
  \* a text wrapper switched to another decoration by name (C14: any order of decorations)
  \cup (IF bi > Len(Script) /\ NRenders < MaxRenders /\ NRenders > 0
           /\ Cardinality({i \in DOMAIN hist : hist[i].op = "decor"}) < 2
        THEN {[op |-> "decor", w |-> w, name |-> n, dec |-> [DefaultDec EXCEPT !.g.HOuter = n]] :
                w \in {x \in DOMAIN st.wr : st.wr[x].kind = "text"}, n \in DecorSwitch}
        ELSE {})
  \cup (IF bi > Len(Script) /\ NRenders < MaxRenders
        THEN {[op |-> "render", w |-> w, entry |-> e] : w \in {x \in DOMAIN st.wr : st.wr[x].kind \in Targets}, e \in {"Render", "RenderTo"}}
             \cup {[op |-> "render", pkg |-> k, t |-> 1, entry |-> "Render"] : k \in Targets}
             \cup (IF Top > 0 THEN {[op |-> "render", pkg |-> k, ow |-> Top, entry |-> "RenderTo"] : k \in Targets} ELSE {})
             \cup {[op |-> "render", auto |-> sty, rkind |-> k, t |-> 1, entry |-> "Render"] :
                     <<sty, k>> \in {x \in {<<"csv", "csv">>, <<"CSV.x", "csv">>, <<"markdown", "md">>, <<"json", "json">>,
                                            <<"html", "html">>, <<"texttable", "text">>} : x[2] \in Targets}}
        ELSE {})

Init == \E v \in Creators : /\ st = Apply(InitState, NewT(v), <<>>) /\ hist = <<NewT(v)>> /\ bi = 1
Next == \E op \in Ops :
          /\ st' = Apply(st, op, <<>>)
          /\ hist' = Append(hist, op)
          /\ bi' = IF bi <= Len(Script) /\ op = Script[bi] THEN bi + 1 ELSE bi
Spec == Init /\ [][Next]_vars
View == <<st, bi, NRenders, hist[1]>>
Emit == GenFile = "" \/ hist'[Len(hist')].op # "render" \/ CSVWrite("%1$s", <<ToJson(hist')>>, GenFile)

\* rendering leaves the table unchanged (C14)
Inv == Inv_C02(st)
RenderPure == [][(hist' # hist /\ hist'[Len(hist')].op = "render") => st'.tbl = st.tbl /\ st'.row = st.row]_vars
=============================================================================
