------------------------------- MODULE MCAuto -------------------------------
(***************************************************************************)
(* C19, bounded model: registry states reachable by registering up to      *)
(* MaxReg additional decoration names (ordinary, case variant, dotted,     *)
(* colliding with a sub-package name or with "texttable"), crossed with    *)
(* the style strings built from the listed names: as is, upper case,       *)
(* "texttable." prefix, trailing sections; plus the listing itself.        *)
(***************************************************************************)
EXTENDS TabularRender, Json, CSV
CONSTANTS RegNames, MaxReg, GenFile
VARIABLES st, hist, done
vars == <<st, hist, done>>

Dec(tok) == [boxless |-> 0, empty |-> 0, g |-> [DefaultDec.g EXCEPT !.HOuter = tok]]
MCBuiltins == [n \in BuiltinDecorNames |-> IF n = "none" THEN [DefaultDec EXCEPT !.boxless = 1] ELSE Dec(n)]

Listed == SubPackageStyles \cup DOMAIN st.reg
Variants(n) == {n, Upper(n), "texttable." \o n, "TextTable." \o n, n \o ".x", n \o ".x.y", "texttable." \o n \o ".x"}
Styles == UNION {Variants(n) : n \in Listed} \cup {"texttable", "TEXTTABLE", "nonesuch", "texttable.nonesuch", "", "."}

NRegs == Cardinality({i \in DOMAIN hist : hist[i].op = "regdecor"})

Ops ==
  (IF NRegs < MaxReg
   THEN {[op |-> "regdecor", name |-> n, custom |-> [HOuter |-> "z"], dec |-> Dec("reg" \o ToString(NRegs))] : n \in RegNames}
   ELSE {})

Final == {[op |-> "autonew", style |-> s] : s \in Styles} \cup {[op |-> "liststyles"]}

Init == /\ st = [InitState EXCEPT !.reg = MCBuiltins, !.defdec = Dec("utf8-heavy")] /\ hist = <<>> /\ done = FALSE
Next == /\ ~done
        /\ \/ \E op \in Ops : st' = Apply(st, op, <<>>) /\ hist' = Append(hist, op) /\ done' = FALSE
           \/ \E op \in Final : st' = st /\ hist' = Append(hist, op) /\ done' = TRUE
Spec == Init /\ [][Next]_vars
View == <<st, done, IF done THEN hist[Len(hist)] ELSE <<>> >>
Emit == GenFile = "" \/ ~done' \/ CSVWrite("%1$s", <<ToJson(hist')>>, GenFile)

\* model level: every name the listing must contain renders; texttable.NAME = NAME;
\* sub-package names are case-insensitive and ignore trailing sections
Inv == /\ Inv_C19(st)
       /\ \A n \in DOMAIN st.reg : AutoKind(n) = "text" =>
             ResolveDec(st, "texttable." \o n) = ResolveDec(st, n) \/ Lower(Sec1(n)) = "texttable"
       /\ \A n \in SubPackageStyles : AutoKind(Upper(n)) = AutoKind(n) /\ AutoKind(n \o ".x.y") = AutoKind(n)
=============================================================================
