HOOKS = {
    "guard": "verif",
    "enable": "none needed: no hook remains in /repo. The registry hook of commit 2c3dbc0 (guard 'verif') was taken out again by commit aaccf78 once the registry was validated from call/return stamps taken outside the library; bin/check still passes -tags verif when it builds harness/cmd/vdrive against /repo's working tree, which selects nothing",
    "baseline_off_cmd": "cd /repo && GOFLAGS=-mod=mod GOPROXY=off GOSUMDB=off go test -vet=off -count=1 ./...",
    "source_commits": ["2c3dbc0", "aaccf78"],
    "add_only": True,
}
NOTES = ("All checks: bin/check <id> --tier quick|thorough; exit 0 held / 1 VIOLATION / 2 machinery failure (no verdict). "
         "Verdicts come only from trace validation of the real library's behaviour against spec/*.tla; see DESIGN.md.")
MBT = "TLA+ spec + TLC model checking; TLC-generated and random scenarios replayed on the real code; TLC trace validation"
CHECKS = {
    "C02": {
        "text": "Exhaustive TLC exploration of all build histories within small bounds (every interleaving of the table-building calls) checks the declarative count/order/addressing invariants on the specification; every transition of that bounded model, plus seeded long random histories (wide tables, two tables), is executed on the real library and the full grid projection (counts, row order/identity, every location, CellAt over a frame larger than the table, Column(n) nil-ness, AllRows-copy scramble) is validated by TLC against the specification after the last step (after every step for the random ones).",
        "note": "Trusted: the Go driver's public-API projection (harness/cmd/vdrive/obs.go), TLC, the reading of header replacement in DESIGN 4.5. Bounded: histories beyond the bounds are sampled, not enumerated.",
        "technique": MBT,
    },
}
CHECKS["C18"] = {
    "text": "The line splitter and the cell's independently coded height rule are transcribed into TLA+ over token strings; TLC checks exhaustively (all token strings up to a bound over {line feed, narrow, wide, empty chunk}) that the two computations agree, and every such string (literally, and with each chunk consistently replaced by rich Unicode chunks) plus seeded random longer strings is measured by the real library; TLC validates every relation of the statement (split loses only line breaks and at most one trailing newline, longest = max per line, runes <= bytes, cells <= 2 runes, cell height = line count, cell width = widest line) on the logged numbers.",
    "note": "Trusted: the driver's tokenisation, TLC. Display width itself is the library's measure by the statement, so the Unicode width tables are not modelled. Strings beyond the bound are sampled.",
    "technique": MBT,
}
CHECKS["C01"] = {
    "text": "The text-form dispatch (string, rune, String > GoString > Error > %v, nested cell, nil), the empty flag and the snapshot/Update state machine are a TLA+ model; TLC enumerates every item kind and all 32 capability combinations with distinct payloads, each followed by mutation and Update in every order, checks the precedence implications and that mutation alone never changes the text, and every transition is executed on the real library (one concrete Go type per capability set) literally and under rich-string substitution, plus seeded random item sequences; TLC validates text, emptiness and item identity of every cell.",
    "note": "Trusted: the generated Go item types (items_gen.go), the static capability table for pool values, fmt's %v as oracle of the last arm. The space of dynamic types is infinite; the dispatch depends only on (kind, capability set), which is enumerated completely.",
    "technique": MBT,
}
CHECKS["C11"] = {
    "text": "Error routing (row's own list before attach, table's list after; misuse; callback failures at add and render time; raw containers of the three kinds with AddError/AddErrorList over nil/empty/mixed/aliased lists) is part of the TLA+ table model; TLC explores all container-operation sequences and all table histories with a failing callback at every level within the bounds, checking exactly-once / append-only invariants on the model; every transition and seeded random longer histories are executed on the real library and TLC validates every error list (same multiset, per-source order, nil iff empty, no nil entries, no panic) against the model.",
    "note": "Trusted: unique error identities created by the driver; errors the library creates itself are compared as the token LIB. Order is demanded only within one source, as the statement says.",
    "technique": MBT,
}
CHECKS["C12"] = {
    "text": "Properties are modelled as one key-to-value map per owner (table, columns incl. column 0, rows, cells, header cells, by-value cell copies, column handles that denote their column for ever); TLC explores all interleavings of set / set-nil / copy / take-handle / grow-past-capacity over type-distinct keys within the bounds and checks owner independence as an action property; every transition and seeded random longer histories run on the real library, where after each step GetProperty of every live owner x every key of the universe (11 keys: equal values of distinct types, struct types, pointers, the library's own keys) is compared with the model as a set, and the stored state of every owner (tables, columns, rows, cells, header cells, copies) is bounded by its number of keys (plus the renderers' three private keys once a text or markdown wrapper exists). PropsChain.tla is an implementation-shaped model of the linked chain (shared links after a by-value copy) refined against the abstract maps.",
    "note": "Trusted: the driver's key/value universe and owner enumeration; the stored state is measured by reflection over the private propertyImpl/valueProperty chain -- if that representation changes the check stops with exit 2 (it cannot measure the growth clause) rather than accept silently. Histories beyond the bounds are sampled.",
    "technique": MBT,
}
CHECKS["C13"] = {
    "text": "The dispatch templates (which registration lists run on which object, in which slot, for Row.Add, AddRow, AddHeaders and a render pass) are TLA+ operators; the C13 relation (required events exactly once, optional ones at most once, nothing unexpected, documented slot order, registration refused exactly for unsupported owner/target pairs) is checked by TLC on the implementation-shaped dispatch for every single registration (pairs where affordable) at every point of every small shape's build script and over two passes; every transition and random registration mixes are executed on the real library with recording callbacks; TLC validates each call's event log by that relation and the marks the callbacks set (visible through the table) by the props facet.",
    "note": "Trusted: pointer-identity identification of callback targets by the driver. Events the statement is silent on are optional (DESIGN 6 C13). Pairs of registrations are exhaustive only on the smallest shapes in the quick tier.",
    "technique": MBT,
}
CHECKS["C03"] = {
    "text": "The text layout (column width = widest line, row height, line-kind sequence, rule and content line structure, equal display width) is a declarative TLA+ relation, and the code's two passes are an implementation-shaped TLA+ emitter; TLC checks on all small grids (cell shapes empty / narrow / wide / multi-line, header of any length or none, separators anywhere, ragged and empty rows, boxed and boxless) that the emitter satisfies the relation, and every such grid is rendered by the real library literally and with rich-Unicode substitution, plus random tables up to 6x8 under every registered decoration and random custom decorations completed by Populate; TLC validates every output line (count, kind, exact slot strings with the decoration's glyphs as wild-cards, display width) against the relation.",
    "note": "Trusted: the driver's line split and the library's width measure of each logged line; glyphs are one cell wide. Grids beyond the bounds are sampled.",
    "technique": MBT,
}
CHECKS["C04"] = {
    "text": "Same layout model as C03, exercised on the alignment and size-override dimensions: TLC enumerates every assignment of {unset,left,right,centre} to column 0 and each column over grids whose cells include width- and height-declaring items (declared <, > actual), checks the emitter against the declarative slot rule (text unmodified, padding side, odd space on the right for centre, own setting beats the column-0 default, declared width of single-line items, declared height), and every case plus random sized/aligned tables is rendered by the real library and validated line by line.",
    "note": "Trusted as C03. Multi-line items declaring a width are not generated (statement silent). Alignment values other than the library's three are not generated.",
    "technique": MBT,
}
CHECKS["C05"] = {
    "text": "The expected records (header, then each non-separator row, padded to the column count) and a strict RFC 4180 all-fields-quoted reader are TLA+ operators (CsvRecords, CsvParse); TLC checks on all small grids over hostile symbols (quote, comma, CR, LF, ragged and zero-cell rows and headers, separators anywhere) that the implementation-shaped emitter's bytes read back to exactly the records; every such grid (literally and under byte-string substitution incl. NUL, 0xFF, invalid UTF-8) and random byte-string tables are rendered by the real library and TLC parses the real output bytes with the same strict reader and compares; zero columns must be refused with no text.",
    "note": "Trusted: Latin-1 transport of bytes through JSON on both sides; TLC's string operators. Both LF and CRLF record terminators are accepted.",
    "technique": MBT,
}
CHECKS["C06"] = {
    "text": "The fixed tag skeleton (table [class] [id], optional caption, thead/tr/th*, tbody/(tr/td*)*, row class iff a generator is set, generator called with 0 and each non-separator row's position) is a TLA+ operator producing the expected token sequence; every small grid x option set and random tables with markup-hostile strings in every context are rendered by the real library, tokenised by a strict tokenizer, and TLC compares token by token (texts and attribute values entity-decoded) and the generator's call log.",
    "note": "Trusted: the hand-written strict tokenizer with hostile self-tests (lex.go) and html.UnescapeString. NUL / invalid UTF-8 are outside the stated alphabets.",
    "technique": MBT,
}
CHECKS["C07"] = {
    "text": "Error cases (missing / short / empty / duplicate headers, no columns, non-boolean skipable, unencodable item) and the expected array of key->value maps (skipable resolution own > column 0, fallback to the text when the item encodes as {}) are TLA+ operators; the comma machine is an implementation-shaped token emitter checked by TLC for well-formedness over all row/separator sequences up to length 5-6; every sequence, every small content/skipable/header combination (with hostile-string substitution) and random tables over items of every JSON kind are rendered by the real library; TLC validates validity, object count and order, and each object's key/value set (canonical JSON) or the error-and-no-text rule.",
    "note": "Trusted: encoding/json as the statement's oracle for values (logged canonically), its streaming decoder for reading the output.",
    "technique": MBT,
}
CHECKS["C08"] = {
    "text": "The GFM structure (line count, ncols+1 unescaped pipes per line, nothing outside the outer pipes, delimiter cells with >= 3 dashes and the colons of the effective alignment own > column 0, decoded trimmed cell = trimmed text, nothing raw, refusal without header or columns) is a TLA+ relation; all small grids over hostile texts (pipes, backslash-pipe, newlines, markup, entities), ragged and zero-cell rows and headers, every alignment assignment, plus random tables are rendered by the real library, split at unescaped pipes, and validated by TLC.",
    "note": "Trusted: the pipe splitter and raw-markup flags of lex.go (self-tested), html.UnescapeString. Carriage returns are not generated (documented non-goal).",
    "technique": MBT,
}
CHECKS["C09"] = {
    "text": "Every build history of the bounded grid model (all interleavings of the table-building calls: no rows, no header, empty header, zero-cell and ragged rows, rows extended after attach, separators anywhere), a second bounded model with items whose declared height/width disagree with their text, TLC -simulate walks of depth 30-40 and random longer sequences are each executed on the real library and followed by every renderer x every registered decoration (plus an unknown name and a custom one) x every entry point (method Render/RenderTo, package functions, auto.Render for every listed style) under recover; TLC validates for every call: no panic, and an error comes with empty text. Declared sizes include negative ones and the largest int (the latter is known finding D20: the text and markdown renderers panic; printed as KNOWN-FINDING).",
    "note": "Trusted: recover() in the driver as the panic detector (a panic raised by the driver's own code is told apart by its stack and stops the check with exit 2). Declared sizes between a few thousand and the largest int are not generated (they exhaust memory rather than panic). Exhaustive only within the bounds; longer histories are sampled.",
    "technique": MBT,
}
CHECKS["C10"] = {
    "text": "In the specification a render's output is a function of the core table's content, the format and the decoration only; the bounded model MCWrap enumerates the paths -- every creator (core New, each sub-package's New, auto.New of styles) x wrapper nestings up to depth 2-3 x every entry point (wrapper methods Render/RenderTo, package functions on the table or on a wrapper, auto.Render with style variants) -- and each path plus random contents/paths is executed on the real library; for every render the driver rebuilds the same content on a core table, renders it through the format's own wrapper and logs byte equality (relational, never against model-predicted bytes), and TLC additionally validates the output structurally with the format's relation (C03-C08).",
    "note": "Trusted: the driver's replay of the build operations onto a fresh core table; Go's == for byte equality.",
    "technique": MBT,
}
CHECKS["C14"] = {
    "text": "Render is modelled as leaving the table state unchanged (TLC checks the action property RenderPure on all bounded sequences of wraps and renders); sequences of up to 3 renders over all formats/decorations through the same, a fresh or a nested wrapper (exhaustive in the bounded model) and random sequences of 3-12 renders are executed on the real library; after every step TLC compares the full grid, text, property and error projections with the unchanged model state, and the driver logs for every render whether its bytes equal the first render of that (table content, format, decoration, options) -- wrapping, re-decorating and option changes do not start a new comparison -- and whether they equal what a brand-new wrapper of that format and decoration gives for the same table.",
    "note": "Trusted: first-output bookkeeping in the driver. User callbacks are not registered in this family (the driver's recording callbacks set a mark property, i.e. they mutate: excluded by the statement).",
    "technique": MBT,
}
CHECKS["C15"] = {
    "level": "fault_enumeration",
    "text": "A render is modelled as a sequence of Write calls with a checked/unchecked flag per write site and a scripted destination (fails from k, only at k, partial at k); TLC checks on the implementation-shaped write sequences of the text, CSV, JSON and Markdown emitters over all small tables that every (k, mode) ends in an error with a prefix accepted; on the real library every small table of the bounded models and random tables are rendered by every renderer once fault-free (counting writer: m calls, reference bytes) and then for every k in 1..m x 3 modes under recover; TLC validates for every fault run: error non-nil, no panic, accepted bytes a prefix.",
    "note": "Trusted: the scripted writer and bytes.HasPrefix in the driver. Fault points are enumerated completely per table; tables are bounded/sampled. HTML's write granularity is html/template's and is enumerated as observed.",
    "technique": "TLA+ writer-fault model + exhaustive fault-point enumeration on the real renderers, validated by TLC",
}
CHECKS["C16"] = {
    "text": "Design level: Concurrent.tla models N owners with private state stepping in any interleaving while the shared registry is extended; TLC checks that each owner's outputs equal those of its solo run (no variable is shared). Binding: every scenario (random creation paths, wrapper nestings, render sequences over all formats and decorations) runs on a goroutine of its own (16-64 at a time, several rounds, seeded scheduling jitter) while another goroutine reads and extends the decoration registry, and only afterwards alone in a fresh world (so that the concurrent rounds meet every lazily initialised package-level value first); the driver is built with Go's race detector; each goroutine's log is validated by TLC as a trace of the sequential specification (full structural relations of every render) and every render's bytes are compared with the solo run's.",
    "note": "Trusted: Go's race detector for the 'free of data races' clause (a data race leaves no trace event; reports count only with a library frame); byte comparison with the solo run in the driver. Interleavings are sampled by the Go scheduler, not enumerated.",
    "technique": "TLA+ design model (no shared state) + concurrent replay under the race detector with per-goroutine TLC trace validation",
}
CHECKS["C17"] = {
    "text": "Registry.tla models every operation as lock / body / unlock steps (a readers/writer lock); TLC explores all interleavings of 3 processes x 2 operations over several program sets and checks mutual exclusion, that every lookup/listing is the answer of the sequential registry at its own body step, lookup soundness and the final state (last body-ordered registration wins, listing complete); thorough adds a TLAPS proof of mutual exclusion for any number of processes and an Apalache inductive invariant. Binding: nothing inside the library is instrumented. Every linearization order produced by the model is run on the real registry from separate goroutines taking turns (sequential histories: the latest registration must win exactly); free-running stress (8-16 goroutines registering, overwriting, looking up and listing 4 names, plus auto.ListStyles) runs under the race detector and ends with a quiescent read-back. The driver logs a call line and a return line per operation, stamped by one atomic clock; RegistryTrace.tla validates that log knowing only this real-time order: a lookup returns a decoration registered under that name by a registration that had begun before the lookup returned and was not already overwritten when the lookup was called (the empty decoration only while no registration of the name has returned); a listing is sorted, duplicate-free, holds every name whose registration returned before it was called and every built-in, and nothing that was not at least being registered. The fail-closed clause is validated on sequential scenarios (registered, overwritten, built-in, unknown, case-variant names; SetDecorationNamed error and Render refusal); an override of a built-in made before the registry is first read must stick.",
    "note": "Trusted: Go's race detector and the runtime's concurrent-map abort for the data-race clause (reports count only with a library frame); the driver's atomic clock for the real-time order. The oracle asks for what the statement promises and no more (a mutex, a readers/writer lock, a copy-on-write map and sync.Map all pass: seeded/equiv). Free-running interleavings are sampled.",
    "technique": "TLA+ lock/body/unlock model checked by TLC (+ TLAPS/Apalache) ; model linearization orders replayed on the real registry; call/return trace validation (regular-register specification) of forced and stress runs under the race detector",
}
CHECKS["C19"] = {
    "text": "Style-string resolution (case-insensitive sub-package section, texttable[.NAME], bare NAME, registered names win as a whole, unknown names give the empty decoration) is a TLA+ operator over the registry state; TLC enumerates registry states reachable by registering up to two extra names (ordinary, dotted, case variants, colliding with csv / CSV / texttable) crossed with every style string built from the listed names (upper case, texttable. prefix, trailing sections) plus the listing, checking that every listed name resolves to something that renders and that texttable.NAME = NAME; every case and random registries/styles run on the real library (one process per registry history) and TLC validates the dynamic type, the decoration identity, render status, and the listing (sorted, complete, every listed name renders). The listing is also exercised under concurrency: hundreds of bursts of registrations while two goroutines call ListStyles, after each of which the listing must show every registered name (RegistryTrace.tla, race detector on).",
    "note": "Trusted: reflection read of the wrapper's decoration; built-in names/default decoration are logged inputs. Where the statement is silent (unregistered NAME followed by sections) only consistency is demanded.",
    "technique": MBT,
}
NOT_APPLICABLE = {}
