"""Extra phases of some checks (registry concurrency for C17, concurrent owners for C16)."""
import json
import os
import re
import shutil

import vlib
from vlib import Infra, log

RACE_RE = re.compile(r"WARNING: DATA RACE")
FATAL_RE = re.compile(r"fatal error: concurrent map (read and map write|writes|iteration and map write)")


def _registry_run(ctx, vdr, d, inp, tag):
    tp = os.path.join(d, "regtrace-%s.ndjson" % tag)
    env = vlib.goenv()
    env["GORACE"] = "halt_on_error=0 exitcode=0"
    early = ["utf8-light", "none", "ascii-simple", "utf8-heavy"][ctx["seed"] % 4]
    p = vlib.run([vdr, "-mode", "registry", "-early", early, "-in", inp, "-out", tp], env=env, timeout=1800, check=False)
    out = p.stdout or ""
    if p.returncode != 0:
        if FATAL_RE.search(out) and ("/repo/" in out or "go.pennock.tech/tabular" in out):
            # the Go runtime itself aborted the process: unsynchronised map access inside the library
            return [], 0, {}, 1 + len(RACE_RE.findall(out)), out
        raise Infra("registry driver failed (%d): %s" % (p.returncode, out[-3000:]))
    m = re.search(r'vdrive: (\{.*\})', out)
    st = json.loads(m.group(1)) if m else {}
    races = len(RACE_RE.findall(out))
    racetxt = out if races else ""
    recs, nl = vlib.validate(tp, d, module="RegistryTrace", nshards=1)
    return recs, nl, st, races, racetxt


def registry_proofs(ctx, d):
    """Unbounded arguments for the locking discipline (thorough tier): a TLAPS proof of mutual exclusion for any
    number of processes (RegistryProof.tla) and the inductive invariant discharged by Apalache (RegistryInd.tla).
    A failure here is a failure of the specification work (exit 2), never a verdict on the code."""
    pd = os.path.join(d, "proofs")
    vlib.copy_spec(pd)
    info = {}
    p = vlib.run(["tlapm", "--threads", "8", "RegistryProof.tla"], cwd=pd, timeout=600, check=False)
    m = re.search(r"All (\d+) obligations? proved", p.stdout or "")
    if not m:
        raise Infra("TLAPS did not prove RegistryProof.tla:\n" + (p.stdout or "")[-2000:])
    info["tlaps_obligations_proved"] = int(m.group(1))
    for init, length in (("Init", 0), ("IndInit", 1)):
        p = vlib.run(["apalache-mc", "check", "--cinit=CInit", "--init=" + init, "--inv=IndInv", "--length=%d" % length,
                      "RegistryInd.tla"], cwd=pd, timeout=600, check=False)
        if "EXITCODE: OK" not in (p.stdout or ""):
            raise Infra("Apalache did not establish the inductive invariant (%s):\n%s" % (init, (p.stdout or "")[-2000:]))
    info["apalache_inductive_invariant"] = "Init => IndInv and IndInv /\\ Next => IndInv' established for 4 processes"
    shutil.rmtree(pd, ignore_errors=True)
    return info


def registry_phase(ctx):
    """C17 concurrency: forced schedules from MCRegistry, free-running stress, mutual-exclusion probe;
    everything under the race detector; validated by RegistryTrace.tla."""
    wd, tier, seed = ctx["wd"], ctx["tier"], ctx["seed"]
    d = os.path.join(wd, "registry")
    os.makedirs(d)
    vdr = vlib.build_driver(d, race=True)
    inp = os.path.join(d, "input.ndjson")
    nforced = 0
    with open(inp, "w") as f:
        for ps in ["rw", "ww", "mix"]:
            md = os.path.join(d, "mc-" + ps)
            vlib.copy_spec(md)
            genf = os.path.join(md, "gen.ndjson")
            with open(os.path.join(md, "MCRegistry.cfg"), "w") as c:
                c.write("SPECIFICATION Spec\nCONSTANTS\n  Procs <- MCProcs\n  Prog <- MCProg\n  Builtins <- MCBuiltins\n"
                        "  ProgSet = \"%s\"\n  GenFile = \"%s\"\nINVARIANT Inv\nACTION_CONSTRAINT EmitDone\nCHECK_DEADLOCK FALSE\n" % (ps, genf))
            g, dist, _ = vlib.run_tlc(md, "MCRegistry", workers=4, timeout=900)
            ctx["states"] += dist
            ctx["transitions"] += g
            ctx["mc_info"].append({"module": "MCRegistry", "constants": {"ProgSet": ps}, "distinct_states": dist, "states_generated": g})
            for line in open(genf):
                if line.strip():
                    f.write(line)
                    nforced += 1
                    if nforced % 97 == 1 and len(ctx["samples"]) < 8:
                        ctx["samples"].append({"source": "MCRegistry forced schedule", "scenario": json.loads(json.loads(line))})
            shutil.rmtree(md, ignore_errors=True)
        nstress = 3 if tier == "quick" else 40
        for i in range(nstress):
            f.write(json.dumps({"stress": {"g": 8 if tier == "quick" else 16, "n": 200 if tier == "quick" else 500, "seed": seed * 100 + i}}) + "\n")
        f.write(json.dumps({"probe": 1}) + "\n")
    log("registry: %d forced schedules from the model, %d stress runs, 1 probe matrix" % (nforced, nstress))
    if tier != "quick":
        info = registry_proofs(ctx, d)
        ctx["mc_info"].append({"module": "RegistryProof / RegistryInd", "constants": {}, **info})
        log("registry proofs: %s" % info)
    recs, nl, st, races, racetxt = _registry_run(ctx, vdr, d, inp, "a")
    ctx["nscen"] += st.get("scenarios", 0)
    ctx["nops"] += st.get("ops", 0)
    ctx["nlines"] += nl
    ctx["hashes"].update("reg%d" % i for i in range(st.get("scenarios", 0)))
    viol = []
    rdir = os.path.join(wd, "replay")
    if races:
        os.makedirs(rdir, exist_ok=True)
        rp = os.path.join(rdir, "C17-race.txt")
        open(rp, "w").write(racetxt[-20000:])
        log("MISMATCH the race detector / Go runtime reported %d data race(s) (or a fatal concurrent map access) during the registry runs" % races)
        viol.append(rp)
    if recs:
        # reproduce: deterministic parts (forced, probe) must show again; stress may need retries
        again = []
        for k in range(5):
            again, _, _, r2, _ = _registry_run(ctx, vdr, d, inp, "b%d" % k)
            if again:
                break
        if not again:
            raise Infra("registry mismatch (%s) did not reproduce in 5 reruns" % json.dumps(recs[0])[:500])
        os.makedirs(rdir, exist_ok=True)
        rp = os.path.join(rdir, "C17-registry.json")
        shutil.copyfile(inp, os.path.join(rdir, "C17-registry-input.ndjson"))
        json.dump({"property": "C17", "mode": "registry", "input": os.path.join(rdir, "C17-registry-input.ndjson"),
                   "mismatches": recs[:20]}, open(rp, "w"), indent=1)
        facets = sorted({r["facet"] for r in recs})
        log("MISMATCH registry facets=%s first=%s" % (facets, json.dumps(recs[0])[:800]))
        viol.append(rp)
    shutil.rmtree(d, ignore_errors=True)
    return viol


def _library_race(text):
    """Splits the race detector's output into reports; returns those with a frame inside the library."""
    reports = text.split("WARNING: DATA RACE")[1:]
    lib = []
    for r in reports:
        body = r.split("==================")[0]
        if "/repo/" in body or "go.pennock.tech/tabular" in body:
            lib.append(body)
    return reports, lib


def conc_phase(ctx):
    """C16: solo runs, then the same scenarios on goroutines of their own for R rounds with the registry being
    read and extended concurrently; race detector on; each goroutine's log validated as a trace of its own."""
    import gens
    wd, tier, seed = ctx["wd"], ctx["tier"], ctx["seed"]
    d = os.path.join(wd, "conc")
    os.makedirs(d)
    # design-level model
    md = os.path.join(d, "mc")
    vlib.copy_spec(md)
    with open(os.path.join(md, "MCConcurrent.cfg"), "w") as c:
        c.write("SPECIFICATION Spec\nCONSTANTS\n  Owners <- MCOwners\n  Script <- MCScript\n  Builtin <- MCBuiltin\n  Fresh <- MCFresh\n"
                "INVARIANT Inv_C16\nCHECK_DEADLOCK FALSE\n")
    g, dist, _ = vlib.run_tlc(md, "MCConcurrent", workers=4, timeout=600)
    ctx["states"] += dist
    ctx["transitions"] += g
    ctx["mc_info"].append({"module": "MCConcurrent", "constants": {"owners": 3, "steps": 3, "fresh_names": 2},
                           "distinct_states": dist, "states_generated": g})
    shutil.rmtree(md, ignore_errors=True)
    vdr = vlib.build_driver(d, race=True)
    nq = 128 if tier == "quick" else 1024
    scens = (gens.gen_paths(seed, "quick")[:nq // 2] + gens.gen_repeat(seed, "quick")[:nq // 4]
             + gens.gen_text(seed, "quick")[:nq // 8] + gens.gen_html(seed, "quick")[:nq // 16] + gens.gen_json(seed, "quick")[:nq // 16])
    if tier != "quick":
        scens = (gens.gen_paths(seed, "thorough")[:nq // 2] + gens.gen_repeat(seed, "thorough")[:nq // 4]
                 + gens.gen_text(seed, "thorough")[:nq // 8] + gens.gen_html(seed, "thorough")[:nq // 16] + gens.gen_json(seed, "thorough")[:nq // 16])
    # owners must be independent: scenarios that register decoration names would share those names through the
    # process-global registry (the statement has the registry read, and extended with fresh names only)
    scens = [ops for ops in scens if not any(o["op"] == "regdecor" for o in ops)]
    sp = os.path.join(d, "scen.ndjson")
    vlib.write_scenarios(sp, [("k%d" % i, ops) for i, ops in enumerate(scens)])
    for i, ops in enumerate(scens):
        ctx["hashes"].add(vlib.scen_hash(ops))
        if i % 37 == 1 and len(ctx["samples"]) < 6:
            ctx["samples"].append({"source": "concurrent owner scenario", "ops": ops})
    rounds = 5 if tier == "quick" else 30
    group = 16 if tier == "quick" else 64
    tp = os.path.join(d, "trace.ndjson")
    env = vlib.goenv()
    env["GORACE"] = "halt_on_error=0 exitcode=0"
    p = vlib.run([vdr, "-mode", "conc", "-in", sp, "-out", tp, "-facets", "none", "-rounds", str(rounds), "-group", str(group),
                  "-subst", str(seed)], env=env, timeout=3000, check=False)
    out = p.stdout or ""
    if p.returncode != 0:
        if FATAL_RE.search(out) and ("/repo/" in out or "go.pennock.tech/tabular" in out):
            rdir = os.path.join(wd, "replay")
            os.makedirs(rdir, exist_ok=True)
            rp = os.path.join(rdir, "%s-fatal.txt" % ctx["prop"])
            open(rp, "w").write(out[-40000:])
            log("MISMATCH the Go runtime aborted the concurrent run: unsynchronised map access inside the library")
            shutil.rmtree(d, ignore_errors=True)
            return [rp]
        raise Infra("concurrent driver failed (%d): %s" % (p.returncode, out[-3000:]))
    m = re.search(r'vdrive: (\{.*\})', out)
    st = json.loads(m.group(1)) if m else {}
    log("concurrent: %d scenarios solo, then %d rounds in groups of %d goroutines" % (len(scens), rounds, group))
    reports, lib = _library_race(out)
    viol = []
    rdir = os.path.join(wd, "replay")
    if reports and not lib:
        raise Infra("the race detector reported a race without a library frame (driver bug?):\n" + reports[0][:3000])
    if lib:
        os.makedirs(rdir, exist_ok=True)
        rp = os.path.join(rdir, "%s-race.txt" % ctx["prop"])
        open(rp, "w").write("WARNING: DATA RACE" + "\nWARNING: DATA RACE".join(lib)[:40000])
        log("MISMATCH the race detector reported %d data race(s) with library frames; first:\n%s" % (len(lib), lib[0][:1500]))
        viol.append(rp)
    recs, nl = vlib.validate(tp, d, module="TabularTrace")
    ctx["nscen"] += st.get("scenarios", 0)
    ctx["nops"] += st.get("ops", 0)
    ctx["nlines"] += nl
    own = [r for r in recs if r["facet"] in ctx["plan"]["own"] or r["facet"] == "res.panic"]
    if own:
        # a mismatch in a solo run is deterministic; one in a concurrent round is kept as observed
        os.makedirs(rdir, exist_ok=True)
        rp = os.path.join(rdir, "%s-conc.json" % ctx["prop"])
        shutil.copyfile(sp, os.path.join(rdir, "%s-conc-scenarios.ndjson" % ctx["prop"]))
        json.dump({"property": ctx["prop"], "mode": "conc", "scenarios": os.path.join(rdir, "%s-conc-scenarios.ndjson" % ctx["prop"]),
                   "rounds": rounds, "group": group, "mismatches": [{k: v for k, v in r.items() if k != "shard"} for r in own[:10]]},
                  open(rp, "w"), indent=1)
        log("MISMATCH concurrent facets=%s scenarios=%d first=%s" % (sorted({r["facet"] for r in own}), len(own), json.dumps(own[0])[:800]))
        viol.append(rp)
    shutil.rmtree(d, ignore_errors=True)
    return viol
