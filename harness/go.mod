module verif/harness

go 1.19

require go.pennock.tech/tabular v0.0.0

require (
	github.com/mattn/go-runewidth v0.0.14 // indirect
	github.com/rivo/uniseg v0.4.4 // indirect
)

replace go.pennock.tech/tabular => /repo
