------------------------------ MODULE Tabular ------------------------------
(***************************************************************************)
(* Specification of the tabular library's table object.                    *)
(*                                                                         *)
(* The whole library is sequential, so the specification is functional:    *)
(* one state record `st` and, for every public call, an operator           *)
(*     Apply(st, op, fired)  ->  next state record                         *)
(* where `op` is an operation record (the wire format shared with the Go   *)
(* driver) and `fired` is the sequence of callback events of that call     *)
(* (taken from the trace during trace validation, from ImplEvents during   *)
(* model checking).  The same operators are used by                        *)
(*   - the bounded model-checking specs (TabularMC*.tla): Next chooses op   *)
(*     from Ops(st); invariants Inv_Cxx are checked on every state;        *)
(*   - scenario generation (the same exploration writes every transition); *)
(*   - trace validation (TabularTrace.tla): op comes from the log of the   *)
(*     real library and Obs*/Agree* compare the logged observations.       *)
(*                                                                         *)
(* Ids are 1-based and allotted in creation order per kind.                *)
(***************************************************************************)
EXTENDS Integers, Sequences, FiniteSets, TLC

-----------------------------------------------------------------------------
(* Generic helpers *)

Max2(a, b) == IF a >= b THEN a ELSE b
Min2(a, b) == IF a <= b THEN a ELSE b
SetMax(S) == IF S = {} THEN 0 ELSE CHOOSE m \in S : \A x \in S : x <= m
Range(s) == {s[i] : i \in DOMAIN s}
Has(s, x) == \E i \in DOMAIN s : s[i] = x
SeqMap(Op(_), s) == [i \in 1..Len(s) |-> Op(s[i])]

RECURSIVE Flatten(_)
Flatten(ss) == IF ss = <<>> THEN <<>> ELSE Head(ss) \o Flatten(Tail(ss))

EmptyMap == <<>>
MapSet(m, k, v) ==
  IF v = "nil" THEN [x \in (DOMAIN m) \ {k} |-> m[x]]
  ELSE [x \in (DOMAIN m) \cup {k} |-> IF x = k THEN v ELSE m[x]]
MapGet(m, k) == IF k \in DOMAIN m THEN m[k] ELSE "nil"

-----------------------------------------------------------------------------
(* Items and cells (C01, C18) *)
(*                                                                         *)
(* An item descriptor d has d.k \in {"str","rune","nil","obj","other",      *)
(* "cell"}; "obj"/"other" carry caps (a sequence of capability names) and   *)
(* the text each capability would return (strv, gov, errv) and fmtv, fmt's  *)
(* %v rendering; d.tx maps each text component to its lines <<s, w>> with   *)
(* w the library's own display-width measure of that line.                 *)

HasCap(d, c) == "caps" \in DOMAIN d /\ Has(d.caps, c)

\* which component is the documented text form: String, else GoString, else Error, else %v
TextSel(d) ==
  CASE d.k \in {"str", "rune"} -> "s"
    [] OTHER -> IF HasCap(d, "String") THEN "strv"
                ELSE IF HasCap(d, "GoString") THEN "gov"
                ELSE IF HasCap(d, "Error") THEN "errv"
                ELSE "fmtv"

\* "cell": a tabular.Cell value holding inner; "cellptr": a *tabular.Cell pointing at such a cell (it
\* offers String, Height and TerminalCellWidth, which report what the pointed-to cell reports)
RECURSIVE TextOf(_)
TextOf(d) == CASE d.k = "nil" -> ""
               [] d.k \in {"cell", "cellptr"} -> TextOf(d.inner)
               [] OTHER -> d[TextSel(d)]

RECURSIVE LinesOf(_)
LinesOf(d) == CASE d.k = "nil" -> <<>>
                [] d.k \in {"cell", "cellptr"} -> LinesOf(d.inner)
                [] OTHER -> d.tx[TextSel(d)]

LinesMaxW(ls) == SetMax({ls[i][2] : i \in DOMAIN ls})

\* cached size fields, as computed when the cell (re)reads its item
RECURSIVE CachedW(_)
CachedW(d) == CASE d.k = "nil" -> 0
                [] d.k = "cell" -> CachedW(d.inner)
                [] d.k = "cellptr" -> Max2(CachedW(d.inner), 0)          \* what the pointed-to cell's TerminalCellWidth() says
                [] OTHER -> IF HasCap(d, "Width") THEN d.w ELSE LinesMaxW(LinesOf(d))
RECURSIVE CachedH(_)
CachedH(d) == CASE d.k = "nil" -> 0
                [] d.k = "cell" -> CachedH(d.inner)
                [] d.k = "cellptr" -> IF CachedH(d.inner) < 1                \* ... and its Height()
                                      THEN (IF Max2(CachedW(d.inner), 0) > 0 THEN 1 ELSE 0) ELSE CachedH(d.inner)
                [] OTHER -> IF HasCap(d, "Height") THEN d.h ELSE Len(LinesOf(d))

\* snap: the item as it was when the cell last read it; iid: identity of the item object (by-value
\* copies of a cell hold the same object, so a mutation of the item is seen through all of them)
MkCellI(d, iid) == [item |-> d, snap |-> d, txt |-> TextOf(d), lines |-> LinesOf(d),
                    h |-> CachedH(d), w |-> CachedW(d), props |-> EmptyMap, iid |-> iid]
MkCell(d) == MkCellI(d, <<>>)
\* the cells of one call: the item of the i-th cell gets the identity pre \o <<i>> (pre names the row
\* object, or the table and the how-manieth header it is)
MkCells(items, pre) == [i \in 1..Len(items) |-> MkCellI(items[i], Append(pre, i))]

\* re-read the (possibly mutated) item, keep everything else
UpdateCell(c) == [c EXCEPT !.snap = c.item, !.txt = TextOf(c.item), !.lines = LinesOf(c.item),
                           !.h = CachedH(c.item), !.w = CachedW(c.item)]

CellWidth(c)  == IF c.w < 0 THEN 0 ELSE c.w
CellHeight(c) == IF c.h < 1 THEN (IF CellWidth(c) > 0 THEN 1 ELSE 0) ELSE c.h
CellEmpty(c)  == c.txt = ""

-----------------------------------------------------------------------------
(* Line and width metrics (C18) *)
(*                                                                         *)
(* A string is given as a sequence of tokens: NL or a chunk free of line    *)
(* feeds.  Segs is the unique split at the line feeds; the library's Lines  *)
(* drops one trailing empty segment.                                       *)

NL == "\n"

RECURSIVE SegsFrom(_, _, _)
SegsFrom(parts, cur, acc) ==
  IF parts = <<>> THEN Append(acc, cur)
  ELSE IF Head(parts) = NL THEN SegsFrom(Tail(parts), "", Append(acc, cur))
  ELSE SegsFrom(Tail(parts), cur \o Head(parts), acc)
Segs(parts) == SegsFrom(parts, "", <<>>)

RECURSIVE ConcatAll(_)
ConcatAll(parts) == IF parts = <<>> THEN "" ELSE Head(parts) \o ConcatAll(Tail(parts))

Front(s) == SubSeq(s, 1, Len(s) - 1)
LibLines(parts) == LET g == Segs(parts) IN IF g[Len(g)] = "" THEN Front(g) ELSE g

\* the cell's own, independently coded height rule (cell.go): 0 for the empty
\* text, else 1 + number of line feeds, minus one if the text ends in a line feed
CountNL(parts) == Cardinality({i \in DOMAIN parts : parts[i] = NL})
EndsNL(parts) == LET nz == {i \in DOMAIN parts : parts[i] # ""} IN
                   nz # {} /\ parts[SetMax(nz)] = NL
HeightRule(parts) == IF ConcatAll(parts) = "" THEN 0
                     ELSE 1 + CountNL(parts) - (IF EndsNL(parts) THEN 1 ELSE 0)

\* model-level claim: the two computations agree (layout pass = emit pass)
Inv_C18_Model(parts) == HeightRule(parts) = Len(LibLines(parts))

\* relations between the logged measurements (m) of the string made of parts
AgreeMetrics(parts, m) ==
  LET g == Segs(parts)
      ls == SeqMap(LAMBDA x : x[1], m.lines)
      mx(k) == SetMax({m.lines[i][k] : i \in DOMAIN m.lines})
  IN /\ m.s = ConcatAll(parts)
     \* nothing lost but the line breaks and at most one trailing line feed
     /\ (ls = g \/ (g[Len(g)] = "" /\ ls = Front(g)))
     \* longest-line measures are the maxima of the per-line measures
     /\ m.llb = mx(2) /\ m.llr = mx(3) /\ m.llc = mx(4)
     \* runes <= bytes, cells <= 2 * runes, per line and per chunk
     /\ \A i \in DOMAIN m.lines : m.lines[i][3] <= m.lines[i][2] /\ m.lines[i][4] <= 2 * m.lines[i][3]
                                    /\ m.lines[i][2] >= 0 /\ m.lines[i][4] >= 0
     /\ \A i \in DOMAIN m.chunks : m.chunks[i][3] <= m.chunks[i][2] /\ m.chunks[i][4] <= 2 * m.chunks[i][3]
     \* a cell without size overrides: height = number of lines, width = widest line
     /\ m.cellText = m.s
     /\ m.cellLines = ls
     /\ m.cellH = Len(m.cellLines)
     /\ m.cellW = m.llc

-----------------------------------------------------------------------------
(* State *)

InitState == [tbl |-> <<>>, row |-> <<>>, ec |-> <<>>, cb |-> <<>>,
              cv |-> <<>>, hd |-> <<>>, wr |-> <<>>,
              rendered |-> FALSE,   \* has any renderer run (they leave private measuring keys on the cells)
              reg |-> <<>>,     \* the decoration registry as this scenario sees it (name -> decoration)
              defdec |-> <<>>]  \* the decoration a new text wrapper starts with

NewColumn == [props |-> EmptyMap]

NewTableRec == [rows |-> <<>>, hdrp |-> FALSE, hdr |-> <<>>, hdrMax |-> 0, hgen |-> 0,
                ncols |-> 0, errs |-> <<>>, props |-> EmptyMap,
                cols |-> <<NewColumn>>]      \* cols[n+1] is column n, n \in 0..ncols

\* a row object: tbl = 0 while detached; pend = errors held by the row itself
NewRowRec(sep) == [sep |-> sep, cells |-> <<>>, tbl |-> 0, pos |-> 0,
                   pend |-> <<>>, props |-> EmptyMap]

Err(id, src) == [id |-> id, src |-> src]

GrowCols(t, n) ==  \* the table record with at least n columns
  IF n <= t.ncols THEN t
  ELSE [t EXCEPT !.ncols = n,
                 !.cols = t.cols \o [i \in 1..(n - t.ncols) |-> NewColumn]]

-----------------------------------------------------------------------------
(* Callback registrations and dispatch (C13) *)
(*                                                                         *)
(* A registration: [ok, okind, oa, ob, time, target, fails].               *)
(* An event: <<cb, kind, a, b>> = registration cb invoked on target         *)
(* (kind, a, b).  Slots describe, per call, which (owner, time, targets)    *)
(* lists are run on which object, in order; `req` says whether the          *)
(* property statement requires the invocation (otherwise it is optional:    *)
(* at most once), `impl` whether the implementation performs it.           *)

Supported(okind, target) ==
  \/ okind = "table"  /\ target \in {"itself", "cell", "row"}
  \/ okind = "column" /\ target \in {"itself", "cell"}
  \/ okind = "row"    /\ target \in {"itself", "row", "cell"}
  \/ okind \in {"cell", "hcell", "cellvar"} /\ target \in {"itself", "cell"}

Slot(okind, oa, ob, time, targets, kind, a, b, req, impl) ==
  [okind |-> okind, oa |-> oa, ob |-> ob, time |-> time, targets |-> targets,
   kind |-> kind, a |-> a, b |-> b, req |-> req, impl |-> impl]

\* registrations matching a slot, in registration order
SlotRegs(st, s) ==
  SelectSeq([i \in 1..Len(st.cb) |-> i],
            LAMBDA i : LET r == st.cb[i] IN
               /\ r.ok
               /\ ((r.okind = s.okind /\ r.oa = s.oa /\ r.ob = s.ob) \/ <<s.okind, s.oa, s.ob>> \in r.also)
               /\ r.time = s.time /\ r.target \in s.targets)

\* expected events of a slot sequence: records [ev, slot, req, impl]
SlotEvents(st, slots) ==
  Flatten([k \in 1..Len(slots) |->
     LET s == slots[k] IN
       SeqMap(LAMBDA i : [ev |-> <<i, s.kind, s.a, s.b>>, slot |-> k, req |-> s.req, impl |-> s.impl],
              SlotRegs(st, s))])

CellOwnerKind(kind) == IF kind = "hcell" THEN "hcell" ELSE "cell"

\* Row.Add(r, new cell c): the row's cell callbacks; when the row is already in a
\* table the statement is silent about table/column cell callbacks (optional).
SlotsRowAdd(st, r, c) ==
  LET t == st.row[r].tbl IN
  << Slot("row", r, 0, "add", {"cell"}, "cell", r, c, TRUE, TRUE) >>
  \o (IF t = 0 THEN <<>> ELSE
      << Slot("column", t, c, "add", {"cell"}, "cell", r, c, FALSE, FALSE),
         Slot("table", t, 0, "add", {"cell"}, "cell", r, c, FALSE, FALSE) >>)

\* AddRow(t, r): table row callbacks on the row, then per cell the column and table
\* cell callbacks.  The row's own "itself" list at add time is optional.
SlotsAddRow(st, t, r) ==
  LET first == st.row[r].tbl = 0    \* adding a row that already is in a table again: the statement is silent
  IN
  << Slot("row", r, 0, "add", {"itself", "row"}, "row", r, 0, FALSE, TRUE),
     Slot("table", t, 0, "add", {"row"}, "row", r, 0, first, TRUE) >>
  \o Flatten([c \in 1..Len(st.row[r].cells) |->
       << Slot("column", t, c, "add", {"cell"}, "cell", r, c, first, TRUE),
          Slot("table", t, 0, "add", {"cell"}, "cell", r, c, first, TRUE) >>])

\* AddHeaders(t): everything optional (the statement speaks of rows added to the table)
SlotsHeaders(st, t, n) ==
  << Slot("table", t, 0, "add", {"row"}, "hrow", 0, 0, FALSE, TRUE) >>
  \o Flatten([c \in 1..n |->
       << Slot("column", t, c, "add", {"cell"}, "hcell", t, c, FALSE, FALSE),
          Slot("table", t, 0, "add", {"cell"}, "hcell", t, c, FALSE, TRUE) >>])

\* per-cell slots of a render pass, in the documented nesting order
SlotsRenderCell(t, rowOwner, kind, a, c, req) ==
  LET rowS(time, impl) == IF rowOwner = 0 THEN <<>>
                          ELSE << Slot("row", rowOwner, 0, time, {"cell"}, kind, a, c, req, TRUE) >>
      colreq == req   \* header cells: optional throughout
      colimpl == kind = "cell"
  IN << Slot("table", t, 0, "pre", {"cell"}, kind, a, c, req, TRUE),
        Slot("column", t, c, "pre", {"cell"}, kind, a, c, colreq, colimpl) >>
     \o rowS("pre", TRUE)
     \o << Slot("table", t, 0, "render", {"cell"}, kind, a, c, req, TRUE),
           Slot(CellOwnerKind(kind), a, c, "render", {"itself", "cell"}, kind, a, c, req, TRUE) >>
     \o rowS("post", TRUE)
     \o << Slot("column", t, c, "post", {"cell"}, kind, a, c, colreq, colimpl),
           Slot("table", t, 0, "post", {"cell"}, kind, a, c, req, TRUE) >>

SlotsRenderPass(st, t) ==
  LET T == st.tbl[t] IN
  << Slot("table", t, 0, "pre", {"itself"}, "table", t, 0, TRUE, TRUE) >>
  \* (the defaults column 0 is a column: a registration on it is accepted, so its own render-time callbacks run)
  \o [n \in 1..(T.ncols + 1) |->
        Slot("column", t, n - 1, "pre", {"itself"}, "column", t, n - 1, TRUE, TRUE)]
  \o (IF ~T.hdrp THEN <<>> ELSE
        Flatten([c \in 1..Len(T.hdr) |-> SlotsRenderCell(t, 0, "hcell", t, c, FALSE)]))
  \o Flatten([i \in 1..Len(T.rows) |->
        LET r == T.rows[i]  R == st.row[r] IN
          << Slot("row", r, 0, "pre", {"itself", "row"}, "row", r, 0, ~R.sep, TRUE) >>
          \o Flatten([c \in 1..Len(R.cells) |-> SlotsRenderCell(t, r, "cell", r, c, TRUE)])
          \o << Slot("row", r, 0, "post", {"itself", "row"}, "row", r, 0, ~R.sep, TRUE) >>])
  \o [n \in 1..(T.ncols + 1) |->
        Slot("column", t, n - 1, "post", {"itself"}, "column", t, n - 1, TRUE, TRUE)]
  \o << Slot("table", t, 0, "post", {"itself"}, "table", t, 0, TRUE, TRUE) >>

\* the events the implementation performs (used when no log is available)
ImplEvents(st, slots) ==
  SeqMap(LAMBDA e : e.ev, SelectSeq(SlotEvents(st, slots), LAMBDA e : e.impl))

\* (owner kind, time, target) combinations that some call dispatches at all; a
\* registration outside this set is one the statement never mentions
KnownSig(okind, time, target) ==
  \/ okind = "table"  /\ <<time, target>> \in {<<"add", "row">>, <<"add", "cell">>, <<"pre", "itself">>, <<"post", "itself">>,
                                                 <<"pre", "cell">>, <<"render", "cell">>, <<"post", "cell">>}
  \/ okind = "column" /\ <<time, target>> \in {<<"add", "cell">>, <<"pre", "itself">>, <<"post", "itself">>,
                                                 <<"pre", "cell">>, <<"post", "cell">>}
  \/ okind = "row"    /\ <<time, target>> \in {<<"add", "cell">>, <<"add", "itself">>, <<"add", "row">>,
                                                 <<"pre", "itself">>, <<"pre", "row">>, <<"post", "itself">>, <<"post", "row">>,
                                                 <<"pre", "cell">>, <<"post", "cell">>}
  \/ okind \in {"cell", "hcell", "cellvar"} /\ <<time, target>> \in {<<"render", "itself">>, <<"render", "cell">>}

\* C13 relation between the expected events of a call and the observed log.  An event may be
\* expected more than once in one call only when its target is listed more than once (a row added to
\* the table twice): "exactly once per matching target" then means once per listing.
CountIn(seq, x) == Cardinality({i \in DOMAIN seq : seq[i] = x})

AgreeCbLog(st, slots, log) ==
  LET exp == SlotEvents(st, slots)
      expEv == {exp[i].ev : i \in DOMAIN exp}
      nExp(ev) == Cardinality({i \in DOMAIN exp : exp[i].ev = ev})
      nReq(ev) == Cardinality({i \in DOMAIN exp : exp[i].ev = ev /\ exp[i].req})
      slotOf(ev) == (CHOOSE i \in DOMAIN exp : exp[i].ev = ev)
      Unmentioned(cb) == LET r == st.cb[cb] IN r.ok /\ ~KnownSig(r.okind, r.time, r.target)
      single(ev) == ev \in expEv /\ nExp(ev) = 1
  IN /\ \A ev \in expEv : CountIn(log, ev) <= nExp(ev) /\ CountIn(log, ev) >= nReq(ev)   \* once per listing
     /\ \A i \in DOMAIN log :                                           \* nothing unexpected
          \/ log[i] \in expEv
          \/ (log[i][1] \in DOMAIN st.cb /\ Unmentioned(log[i][1]) /\ CountIn(log, log[i]) = 1)
     /\ \A i, j \in DOMAIN log :                                        \* documented nesting order
          (i < j /\ single(log[i]) /\ single(log[j]))
             => exp[slotOf(log[i])].slot <= exp[slotOf(log[j])].slot

\* which clause of the relation fails, and for which events (for the report)
ExplainCbLog(st, slots, log) ==
  LET exp == SlotEvents(st, slots)
      expEv == {exp[i].ev : i \in DOMAIN exp}
      slotOf(ev) == (CHOOSE i \in DOMAIN exp : exp[i].ev = ev)
      sig(cb) == IF cb \in DOMAIN st.cb THEN <<st.cb[cb].okind, st.cb[cb].time, st.cb[cb].target>> ELSE <<"?">>
      Unmentioned(cb) == LET r == st.cb[cb] IN r.ok /\ ~KnownSig(r.okind, r.time, r.target)
  IN [twice   |-> {<<sig(log[i][1]), log[i][2]>> :
                     i \in {k \in DOMAIN log : CountIn(log, log[k]) > Cardinality({x \in DOMAIN exp : exp[x].ev = log[k]})
                                                /\ CountIn(log, log[k]) > 1}},
      missing |-> {<<sig(exp[i].ev[1]), exp[i].ev[2]>> :
                     i \in {k \in DOMAIN exp : exp[k].req /\ CountIn(log, exp[k].ev)
                                                   < Cardinality({x \in DOMAIN exp : exp[x].ev = exp[k].ev /\ exp[x].req})}},
      unexpected |-> {<<sig(log[i][1]), log[i][2]>> :
                        i \in {k \in DOMAIN log : log[k] \notin expEv
                                 /\ ~(log[k][1] \in DOMAIN st.cb /\ Unmentioned(log[k][1]))}},
      order   |-> {<<sig(log[i][1]), log[i][2]>> :
                     i \in {k \in DOMAIN log : log[k] \in expEv /\
                              \E j \in DOMAIN log : j > k /\ log[j] \in expEv
                                   /\ exp[slotOf(log[k])].slot > exp[slotOf(log[j])].slot}}]

-----------------------------------------------------------------------------
(* Owners of properties (C12) and effects of fired events *)

\* a reference <<kind, a, b>> to a property owner
PropsOf(st, kind, a, b) ==
  CASE kind = "table"   -> st.tbl[a].props
    [] kind = "column"  -> st.tbl[a].cols[b + 1].props
    [] kind = "row"     -> st.row[a].props
    [] kind = "cell"    -> st.row[a].cells[b].props
    [] kind = "hcell"   -> st.tbl[a].hdr[b].props
    [] kind = "cellvar" -> st.cv[a].props
    [] kind = "handle"  -> st.tbl[st.hd[a].t].cols[st.hd[a].n + 1].props

OwnerExists(st, kind, a, b) ==
  CASE kind = "table"   -> a \in DOMAIN st.tbl
    [] kind = "column"  -> a \in DOMAIN st.tbl /\ b \in 0..st.tbl[a].ncols
    [] kind = "row"     -> a \in DOMAIN st.row
    [] kind = "cell"    -> a \in DOMAIN st.row /\ b \in DOMAIN st.row[a].cells
    [] kind = "hcell"   -> a \in DOMAIN st.tbl /\ b \in DOMAIN st.tbl[a].hdr
    [] kind = "cellvar" -> a \in DOMAIN st.cv
    [] kind = "handle"  -> a \in DOMAIN st.hd
    [] OTHER -> FALSE

SetPropOn(st, kind, a, b, k, v) ==
  CASE kind = "table"   -> [st EXCEPT !.tbl[a].props = MapSet(@, k, v)]
    [] kind = "column"  -> [st EXCEPT !.tbl[a].cols[b + 1].props = MapSet(@, k, v)]
    [] kind = "row"     -> [st EXCEPT !.row[a].props = MapSet(@, k, v)]
    [] kind = "cell"    -> [st EXCEPT !.row[a].cells[b].props = MapSet(@, k, v)]
    [] kind = "hcell"   -> [st EXCEPT !.tbl[a].hdr[b].props = MapSet(@, k, v)]
    [] kind = "cellvar" -> [st EXCEPT !.cv[a].props = MapSet(@, k, v)]
    [] kind = "handle"  -> [st EXCEPT !.tbl[st.hd[a].t].cols[st.hd[a].n + 1].props = MapSet(@, k, v)]

MarkKey(cb) == "mark" \o ToString(cb)

RECURSIVE SumOver(_, _)
SumOver(f, n) == IF n = 0 THEN 0 ELSE f[n] + SumOver(f, n - 1)

\* how often a source has raised an error so far (errors with that source anywhere)
CountSrc(st, src) ==
  LET cnt(es) == Cardinality({i \in DOMAIN es : es[i].src = src}) IN
    SumOver([t \in 1..Len(st.tbl) |-> cnt(st.tbl[t].errs)], Len(st.tbl))
    + SumOver([r \in 1..Len(st.row) |-> cnt(st.row[r].pend)], Len(st.row))

\* raise error e on behalf of row r (0: none) / table t: the table's list once the
\* row belongs to a table, the row's own list before
Raise(st, t, r, e) ==
  IF t # 0 THEN [st EXCEPT !.tbl[t].errs = Append(@, e)]
  ELSE [st EXCEPT !.row[r].pend = Append(@, e)]

\* effects of the fired events of one call made on behalf of table t / row r
RECURSIVE Fire(_, _, _, _)
Fire(st, t, r, evs) ==
  IF evs = <<>> THEN st ELSE
    LET ev == Head(evs)
        cb == ev[1]
        known == cb \in DOMAIN st.cb
        s1 == IF known /\ OwnerExists(st, ev[2], ev[3], ev[4])
              THEN SetPropOn(st, ev[2], ev[3], ev[4], MarkKey(cb), "vtrue") ELSE st
        src == "cb" \o ToString(cb)
        s2 == IF known /\ st.cb[cb].fails = 1
              THEN Raise(s1, t, r, Err("CB" \o ToString(cb) \o ":" \o ToString(CountSrc(s1, src) + 1), src))
              ELSE IF known /\ st.cb[cb].fails = 2
              THEN Raise(s1, t, r, Err("SENT", src))      \* one and the same error value, from whichever callback
              ELSE s1
    IN Fire(s2, t, r, Tail(evs))

-----------------------------------------------------------------------------
(* Operations *)

DoNewTable(st, op) == [st EXCEPT !.tbl = Append(@, NewTableRec)]

DoHeaders(st, op, fired) ==
  LET t == op.t
      n == Len(op.items)
      T0 == GrowCols(st.tbl[t], n)
      T1 == [T0 EXCEPT !.hdrp = TRUE, !.hdr = MkCells(op.items, <<"h", t, T0.hgen + 1>>), !.hdrMax = Max2(@, n),
                       !.hgen = @ + 1]
      \* the previous header cells are gone, and with them the callbacks registered on them (copies of
      \* those cells that were added to rows keep theirs)
      gone(i) == st.cb[i].okind = "hcell" /\ st.cb[i].oa = t
      cb1 == [i \in DOMAIN st.cb |->
                [ (IF gone(i) THEN [st.cb[i] EXCEPT !.okind = "gone"] ELSE st.cb[i])
                  EXCEPT !.also = {x \in @ : ~(x[1] = "hcell" /\ x[2] = t)} ]]
  IN Fire([st EXCEPT !.tbl[t] = T1, !.cb = cb1], t, 0, fired)

\* attach row object r (already in st.row) to table t.  A row that already is in a
\* table may be added again (to the same or another table): it is listed once more,
\* reports its latest position, and from then on its errors go to that table; the
\* errors it recorded while detached move to the table exactly once (an attached row
\* holds no errors of its own, so re-adding it moves nothing).
Attach(st, t, r) ==
  LET R == st.row[r]
      T0 == GrowCols(st.tbl[t], Len(R.cells))
      T1 == [T0 EXCEPT !.rows = Append(@, r), !.errs = @ \o R.pend]
  IN [st EXCEPT !.tbl[t] = T1,
                !.row[r] = [R EXCEPT !.tbl = t, !.pos = Len(T1.rows), !.pend = <<>>]]

DoRowItems(st, op, fired) ==
  LET r == Len(st.row) + 1
      R == [NewRowRec(FALSE) EXCEPT !.cells = MkCells(op.items, <<"r", r>>)]
      s1 == [st EXCEPT !.row = Append(@, R)]
  IN Fire(Attach(s1, op.t, r), op.t, r, fired)

DoSep(st, op) ==
  LET r == Len(st.row) + 1
      s1 == [st EXCEPT !.row = Append(@, NewRowRec(TRUE))]
      T1 == [st.tbl[op.t] EXCEPT !.rows = Append(@, r)]
  IN [s1 EXCEPT !.tbl[op.t] = T1, !.row[r].tbl = op.t, !.row[r].pos = Len(T1.rows)]

DoAppendRow(st, op, fired) ==
  LET r == Len(st.row) + 1
      s1 == [st EXCEPT !.row = Append(@, NewRowRec(FALSE))]
  IN Fire(Attach(s1, op.t, r), op.t, r, fired)

DoNewRow(st, op) == [st EXCEPT !.row = Append(@, NewRowRec(FALSE))]

\* every table that lists row r becomes at least n columns wide (a row may have been added to
\* more than one table)
GrowTablesOf(st, r, n) ==
  [st EXCEPT !.tbl = [t \in DOMAIN st.tbl |-> IF Has(st.tbl[t].rows, r) THEN GrowCols(st.tbl[t], n) ELSE st.tbl[t]]]

\* Row.Add: a separator refuses the cell and the misuse is an error of the row
\* (hence of its table once it is in one); otherwise the cell is appended and a
\* row that is already in a table makes the table at least that wide.
DoRowAdd(st, op, fired) ==
  LET r == op.r
      R == st.row[r]
  IN IF R.sep THEN Raise(st, R.tbl, r, Err("LIB", "lib"))
     ELSE LET n == Len(R.cells) + 1
              s1 == [st EXCEPT !.row[r].cells = Append(@, MkCellI(op.item, <<"r", r, n>>))]
          IN Fire(GrowTablesOf(s1, r, n), R.tbl, r, fired)

\* Row.Add as it was found (defect D2): the table is not told about a cell added to a row that is
\* already in it.  Kept so that the bounded model can show the consequence (bin/selftest runs MCGrid
\* with Variant = "asfound" and expects Inv_C02 to fail).
DoRowAddAsFound(st, op, fired) ==
  LET r == op.r  R == st.row[r] IN
  IF R.sep THEN Raise(st, R.tbl, r, Err("LIB", "lib"))
  ELSE Fire([st EXCEPT !.row[r].cells = Append(@, MkCell(op.item))], R.tbl, r, fired)

DoAddRow(st, op, fired) == Fire(Attach(st, op.t, op.r), op.t, op.r, fired)

ErrArg(e, src) == IF e = "nil" THEN <<>> ELSE <<Err(e, src)>>

DoRowErr(st, op) ==
  LET R == st.row[op.r]
      es == ErrArg(op.e, "row" \o ToString(op.r))
  IN IF R.tbl # 0 THEN [st EXCEPT !.tbl[R.tbl].errs = @ \o es]
     ELSE [st EXCEPT !.row[op.r].pend = @ \o es]

DoTblErr(st, op) == [st EXCEPT !.tbl[op.t].errs = @ \o ErrArg(op.e, "tbl" \o ToString(op.t))]

\* raw error containers: kind \in {"made","zero","nil"}
DoEcNew(st, op) == [st EXCEPT !.ec = Append(@, [kind |-> op.kind, errs |-> <<>>])]

DoEcAdd(st, op) ==
  IF st.ec[op.ec].kind = "nil" THEN st
  ELSE [st EXCEPT !.ec[op.ec].errs = @ \o ErrArg(op.e, "ec" \o ToString(op.ec))]

EcListArg(st, op) ==
  IF "from" \in DOMAIN op THEN st.ec[op.from].errs
  ELSE IF "nillist" \in DOMAIN op THEN <<>>
  ELSE Flatten(SeqMap(LAMBDA e : ErrArg(e, "ec" \o ToString(op.ec)), op.list))

DoEcAddList(st, op) ==
  IF st.ec[op.ec].kind = "nil" THEN st
  ELSE [st EXCEPT !.ec[op.ec].errs = @ \o EcListArg(st, op)]

DoSetProp(st, op) ==
  LET o == op.owner IN
  CASE o.kind = "table"   -> SetPropOn(st, "table", o.t, 0, op.k, op.v)
    [] o.kind = "column"  -> SetPropOn(st, "column", o.t, o.n, op.k, op.v)
    [] o.kind = "row"     -> SetPropOn(st, "row", o.r, 0, op.k, op.v)
    [] o.kind = "cell"    -> SetPropOn(st, "cell", o.r, o.c, op.k, op.v)
    [] o.kind = "hcell"   -> SetPropOn(st, "hcell", o.t, o.c, op.k, op.v)
    [] o.kind = "cellvar" -> SetPropOn(st, "cellvar", o.v, 0, op.k, op.v)
    [] o.kind = "handle"  -> SetPropOn(st, "handle", o.h, 0, op.k, op.v)

CellAtRef(st, o) ==
  CASE o.kind = "cell"    -> st.row[o.r].cells[o.c]
    [] o.kind = "hcell"   -> st.tbl[o.t].hdr[o.c]
    [] o.kind = "cellvar" -> st.cv[o.v]

\* Row.Add of a by-value copy of an existing cell: the new cell starts with the
\* source's item, text and properties (an independent map from then on) and
\* carries the source's callback registrations as well
RefTriple(o) ==
  CASE o.kind = "cell" -> <<"cell", o.r, o.c>> [] o.kind = "hcell" -> <<"hcell", o.t, o.c>>
    [] o.kind = "cellvar" -> <<"cellvar", o.v, 0>> [] OTHER -> <<o.kind, 0, 0>>

\* the registrations carried by cell `src` are also carried by its copy `new`
CarryRegs(cb, src, new) ==
  [i \in DOMAIN cb |->
     IF (cb[i].okind = src[1] /\ cb[i].oa = src[2] /\ cb[i].ob = src[3]) \/ src \in cb[i].also
     THEN [cb[i] EXCEPT !.also = @ \cup {new}] ELSE cb[i]]

DoRowAddCell(st, op, fired) ==
  LET r == op.r
      R == st.row[r]
  IN IF R.sep THEN Raise(st, R.tbl, r, Err("LIB", "lib"))
     ELSE LET n == Len(R.cells) + 1
              src == RefTriple(op.from)
              s1 == [st EXCEPT !.row[r].cells = Append(@, CellAtRef(st, op.from)),
                               !.cb = CarryRegs(st.cb, src, <<"cell", r, n>>)]
              s2 == IF R.tbl = 0 THEN s1 ELSE [s1 EXCEPT !.tbl[R.tbl] = GrowCols(@, n)]
          IN Fire(s2, R.tbl, r, fired)

\* a by-value copy of a cell: an independent owner from then on; it carries the source's callbacks
DoCopyCell(st, op) ==
  [st EXCEPT !.cv = Append(@, CellAtRef(st, op.from)),
             !.cb = CarryRegs(st.cb, RefTriple(op.from), <<"cellvar", Len(st.cv) + 1, 0>>)]

\* a column handle keeps addressing column n of table t for ever
DoTakeCol(st, op) == [st EXCEPT !.hd = Append(@, [t |-> op.t, n |-> op.n])]

OwnerTriple(o) ==
  CASE o.kind = "table"   -> <<"table", o.t, 0>>
    [] o.kind = "column"  -> <<"column", o.t, o.n>>
    [] o.kind = "row"     -> <<"row", o.r, 0>>
    [] o.kind = "cell"    -> <<"cell", o.r, o.c>>
    [] o.kind = "hcell"   -> <<"hcell", o.t, o.c>>
    [] o.kind = "cellvar" -> <<"cellvar", o.v, 0>>
    [] OTHER -> <<o.kind, 0, 0>>

RegOk(op) == Supported(op.owner.kind, op.target)

DoRegCb(st, op) ==
  LET o == OwnerTriple(op.owner) IN
  [st EXCEPT !.cb = Append(@, [ok |-> RegOk(op), okind |-> o[1], oa |-> o[2], ob |-> o[3],
                               time |-> op.time, target |-> op.target, fails |-> op.fails,   \* 0 / 1 fresh error / 2 sentinel
                               also |-> {}])]     \* also: cells that are by-value copies of the owner cell

\* InvokeRenderCallbacks called directly: the measuring callbacks of any text / Markdown wrapper that
\* exists for the table run too, and leave their private keys on the cells
DoRenderCbs(st, t, fired) == Fire([st EXCEPT !.rendered = @ \/ Len(st.wr) > 0], t, 0, fired)

SetCellAtRef(st, o, c) ==
  CASE o.kind = "cell"    -> [st EXCEPT !.row[o.r].cells[o.c] = c]
    [] o.kind = "hcell"   -> [st EXCEPT !.tbl[o.t].hdr[o.c] = c]
    [] o.kind = "cellvar" -> [st EXCEPT !.cv[o.v] = c]

\* the item is mutated behind the cells' backs: every cell holding that object (the cell referred to and
\* its by-value copies) now has the new item, and every one of them keeps its text until it is updated
DoMutate(st, op) ==
  LET id == CellAtRef(st, op.cell).iid
      upd(c) == IF c.iid = id /\ id # <<>> THEN [c EXCEPT !.item = op.item] ELSE c
      s1 == [st EXCEPT !.row = [r \in DOMAIN st.row |-> [st.row[r] EXCEPT !.cells = SeqMap(upd, @)]],
                       !.tbl = [t \in DOMAIN st.tbl |-> [st.tbl[t] EXCEPT !.hdr = SeqMap(upd, @)]],
                       !.cv = SeqMap(upd, st.cv)]
  IN SetCellAtRef(s1, op.cell, [CellAtRef(s1, op.cell) EXCEPT !.item = op.item])
DoUpdate(st, op) == SetCellAtRef(st, op.cell, UpdateCell(CellAtRef(st, op.cell)))

\* the slots (expected callback events) of a call
SlotsOf(st, op) ==
  CASE op.op = "headers"   -> SlotsHeaders(st, op.t, Len(op.items))
    [] op.op = "rowitems"  -> LET r == Len(st.row) + 1
                                  s1 == [st EXCEPT !.row = Append(@, [NewRowRec(FALSE) EXCEPT !.cells = MkCells(op.items, <<"r", r>>)])]
                              IN SlotsAddRow(s1, op.t, r)
    [] op.op = "appendrow" -> LET r == Len(st.row) + 1
                                  s1 == [st EXCEPT !.row = Append(@, NewRowRec(FALSE))]
                              IN SlotsAddRow(s1, op.t, r)
    [] op.op \in {"rowadd", "rowaddcell"}
                           -> IF st.row[op.r].sep THEN <<>> ELSE SlotsRowAdd(st, op.r, Len(st.row[op.r].cells) + 1)
    [] op.op = "addrow"    -> SlotsAddRow(st, op.t, op.r)
    [] op.op = "rendercbs" -> SlotsRenderPass(st, op.t)
    [] OTHER -> <<>>

\* Core operations; renderers are layered on top in TabularRender.
ApplyCore(st, op, fired) ==
  CASE op.op = "newtable"  -> DoNewTable(st, op)
    [] op.op = "headers"   -> DoHeaders(st, op, fired)
    [] op.op = "rowitems"  -> DoRowItems(st, op, fired)
    [] op.op = "sep"       -> DoSep(st, op)
    [] op.op = "appendrow" -> DoAppendRow(st, op, fired)
    [] op.op = "newrow"    -> DoNewRow(st, op)
    [] op.op = "rowadd"    -> DoRowAdd(st, op, fired)
    [] op.op = "rowaddcell" -> DoRowAddCell(st, op, fired)
    [] op.op = "addrow"    -> DoAddRow(st, op, fired)
    [] op.op = "rowerr"    -> DoRowErr(st, op)
    [] op.op = "tblerr"    -> DoTblErr(st, op)
    [] op.op = "ecnew"     -> DoEcNew(st, op)
    [] op.op = "ecadd"     -> DoEcAdd(st, op)
    [] op.op = "ecaddlist" -> DoEcAddList(st, op)
    [] op.op = "setprop"   -> DoSetProp(st, op)
    [] op.op = "copycell"  -> DoCopyCell(st, op)
    [] op.op = "takecol"   -> DoTakeCol(st, op)
    [] op.op = "regcb"     -> DoRegCb(st, op)
    [] op.op = "rendercbs" -> DoRenderCbs(st, op.t, fired)
    [] op.op = "mutate"    -> DoMutate(st, op)
    [] op.op = "update"    -> DoUpdate(st, op)
    [] OTHER -> st      \* snapshot / nop / operations of layered modules

-----------------------------------------------------------------------------
(* Declarative invariants over the core state *)

TableRowIds(st, t) == Range(st.tbl[t].rows)

\* C02: counts, order, addressing
Inv_C02(st) ==
  \A t \in DOMAIN st.tbl :
    LET T == st.tbl[t] IN
    /\ T.ncols = SetMax({T.hdrMax} \cup {Len(st.row[r].cells) : r \in TableRowIds(st, t)})
    /\ Len(T.cols) = T.ncols + 1
    \* a row listed once in exactly one table reports that position
    /\ \A i \in DOMAIN T.rows :
         (\A t2 \in DOMAIN st.tbl : \A j \in DOMAIN st.tbl[t2].rows : (st.tbl[t2].rows[j] = T.rows[i]) => (t2 = t /\ j = i))
           => (st.row[T.rows[i]].pos = i /\ st.row[T.rows[i]].tbl = t)
    /\ T.hdrp => Len(T.hdr) <= T.ncols

\* detached rows are in no table's list and report position 0
Inv_Detached(st) ==
  \A r \in DOMAIN st.row :
    st.row[r].tbl = 0 => /\ st.row[r].pos = 0
                         /\ \A t \in DOMAIN st.tbl : r \notin TableRowIds(st, t)

\* C01, stated as precedence implications over the item the cell last read
RECURSIVE TextFormOK(_, _)
TextFormOK(d, txt) ==
  CASE d.k = "nil"  -> txt = ""
    [] d.k \in {"cell", "cellptr"} -> TextFormOK(d.inner, txt)
    [] d.k \in {"str", "rune"} -> txt = d.s
    [] OTHER -> /\ HasCap(d, "String") => txt = d.strv
                /\ (~HasCap(d, "String") /\ HasCap(d, "GoString")) => txt = d.gov
                /\ (~HasCap(d, "String") /\ ~HasCap(d, "GoString") /\ HasCap(d, "Error")) => txt = d.errv
                /\ (~HasCap(d, "String") /\ ~HasCap(d, "GoString") /\ ~HasCap(d, "Error")) => txt = d.fmtv

AllCells(st) ==
  UNION {Range(st.row[r].cells) : r \in DOMAIN st.row} \cup UNION {Range(st.tbl[t].hdr) : t \in DOMAIN st.tbl}
  \cup Range(st.cv)

Inv_C01(st) == \A c \in AllCells(st) : TextFormOK(c.snap, c.txt) /\ (CellEmpty(c) <=> c.txt = "")

Inv_C11_NoPendingOnAttached(st) ==
  \A r \in DOMAIN st.row : st.row[r].tbl # 0 => st.row[r].pend = <<>>

-----------------------------------------------------------------------------
(* Predicted observations (facets), compared with the driver's log *)

\* grid facet of table t: the exact structure the driver logs
ObsGrid(st, t) ==
  LET T == st.tbl[t]
      nr == Len(T.rows)
      RowOf(i) == st.row[T.rows[i]]
      CellOk(r, c) == r \in 1..nr /\ ~RowOf(r).sep /\ c \in 1..Len(RowOf(r).cells)
  IN [nrows |-> nr, ncols |-> T.ncols,
      hdrn  |-> IF T.hdrp THEN Len(T.hdr) ELSE -1,
      rows  |-> [i \in 1..nr |-> <<T.rows[i], IF RowOf(i).sep THEN 1 ELSE 0,
                                   IF RowOf(i).sep THEN -1 ELSE Len(RowOf(i).cells), RowOf(i).pos, 0>>],
      cells |-> Flatten([i \in 1..nr |-> [c \in 1..Len(RowOf(i).cells) |-> <<i, c, RowOf(i).pos, c>>]]),
      cellat |-> Flatten([r \in 1..(nr + 2) |-> [c \in 1..(T.ncols + 2) |->
                    LET ok == IF CellOk(r - 1, c - 1) THEN 1 ELSE 0 IN <<r - 1, c - 1, ok, ok, 1>>]]),
      cols  |-> [n \in 1..(T.ncols + 3) |-> IF n - 2 \in 0..T.ncols THEN 1 ELSE 0],
      scr   |-> 1]

ObsGridAll(st) == [t \in 1..Len(st.tbl) |-> ObsGrid(st, t)]

ObsDetached(st) ==
  LET ids == SelectSeq([i \in 1..Len(st.row) |-> i], LAMBDA r : st.row[r].tbl = 0)
  IN SeqMap(LAMBDA r : <<r, 0, Len(st.row[r].cells), 0, 0>>, ids)

\* text facet (C01, C18): header cells then all row objects' cells; per cell the text, the empty
\* flag, item identity, and the reported height, width and line count (for a cell whose item does
\* not override its size: height = number of lines, width = widest line, also after Update)
ObsText(st) ==
  Flatten([t \in 1..Len(st.tbl) |->
     [c \in 1..Len(st.tbl[t].hdr) |->
        LET x == st.tbl[t].hdr[c] IN <<"h", t, c, x.txt, IF CellEmpty(x) THEN 1 ELSE 0, 1,
                                       CellHeight(x), CellWidth(x), Len(x.lines)>>]])
  \o Flatten([r \in 1..Len(st.row) |->
     [c \in 1..Len(st.row[r].cells) |->
        LET x == st.row[r].cells[c] IN <<"r", r, c, x.txt, IF CellEmpty(x) THEN 1 ELSE 0, 1,
                                       CellHeight(x), CellWidth(x), Len(x.lines)>>]])

\* errors (C11): same multiset, per-source order, nil iff empty, no nil entries
Ids(es) == SeqMap(LAMBDA e : e.id, es)
BagOf(s) == [x \in Range(s) |-> Cardinality({i \in DOMAIN s : s[i] = x})]

AgreeErrList(exp, o) ==
  LET obs == o.ids
      srcs == {exp[i].src : i \in DOMAIN exp}
      idsOf(src) == {exp[i].id : i \in {j \in DOMAIN exp : exp[j].src = src}}
      \* an id that several sources raise (the sentinel) cannot be attributed: it counts in the multiset only
      shared == {x \in Range(Ids(exp)) : Cardinality({exp[i].src : i \in {j \in DOMAIN exp : exp[j].id = x}}) > 1}
  IN /\ ~Has(obs, "nil")
     /\ (o.isnil = 1) <=> (exp = <<>>)
     /\ BagOf(obs) = BagOf(Ids(exp))
     /\ \A s \in srcs : SelectSeq(obs, LAMBDA x : x \in idsOf(s) \ shared)
                        = SelectSeq(Ids(SelectSeq(exp, LAMBDA e : e.src = s)), LAMBDA x : x \notin shared)

AgreeErrs(st, o) ==
  /\ Len(o.tbl) = Len(st.tbl)
  /\ \A t \in DOMAIN st.tbl : AgreeErrList(st.tbl[t].errs, o.tbl[t])
  /\ LET det == {r \in DOMAIN st.row : st.row[r].tbl = 0} IN
       /\ {o.rows[i].r : i \in DOMAIN o.rows} = det
       /\ \A i \in DOMAIN o.rows : AgreeErrList(st.row[o.rows[i].r].pend, o.rows[i])
  /\ Len(o.ecs) = Len(st.ec)
  /\ \A e \in DOMAIN st.ec : o.ecs[e].panic = "" /\ AgreeErrList(st.ec[e].errs, o.ecs[e])

\* properties (C12): the set of non-nil (owner, key, value) triples
PropTriples(kind, a, b, m) == {<<kind, a, b, k, m[k]>> : k \in DOMAIN m}

ObsPropSet(st) ==
  UNION {PropTriples("table", t, 0, st.tbl[t].props) : t \in DOMAIN st.tbl}
  \cup UNION {UNION {PropTriples("column", t, n, st.tbl[t].cols[n + 1].props) : n \in 0..st.tbl[t].ncols} :
                t \in DOMAIN st.tbl}
  \cup UNION {UNION {PropTriples("hcell", t, c, st.tbl[t].hdr[c].props) : c \in DOMAIN st.tbl[t].hdr} :
                t \in DOMAIN st.tbl}
  \cup UNION {PropTriples("row", r, 0, st.row[r].props) : r \in DOMAIN st.row}
  \cup UNION {UNION {PropTriples("cell", r, c, st.row[r].cells[c].props) : c \in DOMAIN st.row[r].cells} :
                r \in DOMAIN st.row}
  \cup UNION {PropTriples("cellvar", v, 0, st.cv[v].props) : v \in DOMAIN st.cv}
  \cup UNION {PropTriples("handle", h, 0, PropsOf(st, "handle", h, 0)) : h \in DOMAIN st.hd}

=============================================================================
