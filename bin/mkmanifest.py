#!/usr/bin/env python3
"""Writes MANIFEST.json from the table below (keeps it valid and in one place)."""
import json, os, sys
V = os.path.dirname(os.path.dirname(os.path.abspath(__file__)))
props = [json.loads(l) for l in open(os.path.join(V, "properties.jsonl"))]
sys.path.insert(0, os.path.join(V, "bin"))
import manifest_data as md

checks = []
for p in props:
    pid = p["id"]
    if pid not in md.CHECKS:
        continue
    c = md.CHECKS[pid]
    checks.append({
        "property_id": pid,
        "quick_cmd": "bin/check %s --tier quick" % pid,
        "thorough_cmd": "bin/check %s --tier thorough" % pid,
        "evidence_file": "/verif/evidence/%s.json" % pid,
        "replay_cmd_template": "bin/check %s --replay {path}" % pid,
        "engine": "tla-mbt",
        "level_claimed": {"category": c.get("level", "model_checking"), "text": c["text"], "design_ref": c.get("ref", "DESIGN.md section 6 " + pid)},
        "level_note": c["note"],
        "technique": c["technique"],
    })
na = [{"property_id": p["id"], "reason": md.NOT_APPLICABLE.get(p["id"], "check not built yet (work in progress; planned per DESIGN.md section 6)")}
      for p in props if p["id"] not in md.CHECKS]
m = {
    "version": 1,
    "setup_cmd": "bin/setup",
    "hooks": md.HOOKS,
    "engines": [{"name": "tla-mbt", "path": "/verif/bin/check", "serves_properties": sorted(md.CHECKS),
                 "kind_free_text": "explicit TLA+ specification (spec/*.tla); TLC bounded model checking of the property invariants, TLC-generated scenarios (one per model transition) and seeded random scenarios replayed on the real library by a Go driver, TLC trace validation of the driver's NDJSON log against the specification"}],
    "checks": checks,
    "notes": md.NOTES,
    "not_applicable": na,
}
json.dump(m, open(os.path.join(V, "MANIFEST.json"), "w"), indent=1)
print("MANIFEST.json: %d checks, %d not_applicable" % (len(checks), len(na)))
