------------------------------ MODULE MCGrid ------------------------------
(***************************************************************************)
(* Bounded model of the table-building history (C02, and the table shapes  *)
(* reused by C09): every interleaving of AddHeaders, AddRowItems,          *)
(* AddSeparator, AppendNewRow, NewRow*, Row.Add (detached, attached,       *)
(* separator) and AddRow within the bounds.  Used twice: model checking of *)
(* the invariants, and generation (Emit writes the witness history of      *)
(* every transition as a scenario for the real library).                   *)
(***************************************************************************)
EXTENDS TabularRender, Json, CSV

CONSTANTS MaxRows,      \* rows + separators in the table
          MaxCells,     \* cells per AddRowItems / AddHeaders / detached row
          MaxLate,      \* cells a row may gain after it joined the table
          MaxDetached,  \* detached rows alive at once
          MaxHdr,       \* AddHeaders calls
          MaxHist,      \* operations per history
          GenFile       \* scenario output ("" = none)

VARIABLES st, hist
vars == <<st, hist>>

It(s) == [k |-> "str", s |-> s, tx |-> [s |-> << <<s, Len(s)>> >>]]
Items(n) == [i \in 1..n |-> It(IF i = 1 THEN "a" ELSE "bb")]

T == st.tbl[1]
NRows == Len(T.rows)
Detached == {r \in DOMAIN st.row : st.row[r].tbl = 0}
NHdrOps == Cardinality({i \in DOMAIN hist : hist[i].op = "headers"})
CanGrow(r) == LET R == st.row[r] IN
  \/ R.sep
  \/ R.tbl = 0 /\ Len(R.cells) < MaxCells
  \/ R.tbl # 0 /\ ~R.sep /\ Len(R.cells) < MaxCells + MaxLate

Ops ==
     {[op |-> "headers", t |-> 1, items |-> Items(n)] : n \in IF NHdrOps < MaxHdr THEN 0..MaxCells ELSE {}}
  \cup {[op |-> "rowitems", t |-> 1, items |-> Items(n)] : n \in IF NRows < MaxRows THEN 0..MaxCells ELSE {}}
  \cup (IF NRows < MaxRows THEN {[op |-> "sep", t |-> 1], [op |-> "appendrow", t |-> 1]} ELSE {})
  \cup (IF Cardinality(Detached) < MaxDetached /\ Len(st.row) < MaxRows + MaxDetached
        THEN {[op |-> "newrow", how |-> "sizedfor", t |-> 1, cap |-> 0],
              [op |-> "newrow", how |-> "new", t |-> 1, cap |-> 0],
              [op |-> "newrow", how |-> "cap", t |-> 1, cap |-> 0]} ELSE {})
  \cup {[op |-> "rowadd", r |-> r, item |-> It("c")] : r \in {x \in DOMAIN st.row : CanGrow(x)}}
  \cup {[op |-> "addrow", t |-> 1, r |-> r] : r \in IF NRows < MaxRows THEN Detached ELSE {}}

NewT == [op |-> "newtable", via |-> "core"]
Init == /\ st = Apply(InitState, NewT, <<>>) /\ hist = <<NewT>>

Next == /\ Len(hist) < MaxHist
        /\ \E op \in Ops :
             /\ st' = Apply(st, op, ImplEvents(st, SlotsOfAll(st, op)))
             /\ hist' = Append(hist, op)

Spec == Init /\ [][Next]_vars

View == st

\* one scenario per transition of the bounded model
Emit == GenFile = "" \/ CSVWrite("%1$s", <<ToJson(hist')>>, GenFile)

Inv == Inv_C02(st) /\ Inv_Detached(st) /\ Inv_C11_NoPendingOnAttached(st)

\* the row sequence only ever grows at the end, and rows keep their position
RowsAppendOnly ==
  [][\A t \in DOMAIN st.tbl :
       /\ Len(st'.tbl[t].rows) >= Len(st.tbl[t].rows)
       /\ SubSeq(st'.tbl[t].rows, 1, Len(st.tbl[t].rows)) = st.tbl[t].rows
       /\ st'.tbl[t].ncols >= st.tbl[t].ncols]_vars
=============================================================================
