------------------------------ MODULE MCItems ------------------------------
(***************************************************************************)
(* C01, bounded model: every item kind, every combination of the text-form *)
(* and size-override capabilities (distinct payloads, so that a precedence *)
(* mistake is visible), nested cells, each followed by mutation of the     *)
(* item and Update of the cell in every order.                             *)
(***************************************************************************)
EXTENDS TabularRender, Json, CSV
CONSTANTS MaxHist, GenFile
VARIABLES st, hist
vars == <<st, hist>>

L(s) == << <<s, Len(s)>> >>
CapOrder == <<"String", "GoString", "Error", "Height", "Width">>
CapSeqs == {SelectSeq(CapOrder, LAMBDA c : c \in S) : S \in SUBSET Range(CapOrder)}

Str(s, ls) == [k |-> "str", s |-> s, tx |-> [s |-> ls]]
Obj(cs, v) ==
  IF v = "empty"      \* every text-form method now returns the empty string
  THEN [k |-> "obj", caps |-> cs, strv |-> "", gov |-> "", errv |-> "", fmtv |-> "F", h |-> 1, w |-> 2,
        tx |-> [strv |-> <<>>, gov |-> <<>>, errv |-> <<>>, fmtv |-> L("F")]]
  ELSE [k |-> "obj", caps |-> cs,
               strv |-> "S" \o v \o "\nT", gov |-> "G" \o v, errv |-> IF v = "" THEN "" ELSE "E" \o v, fmtv |-> "F",
               h |-> IF v = "" THEN 2 ELSE 0, w |-> IF v = "" THEN 3 ELSE 7,
               tx |-> [strv |-> << <<"S" \o v, 1 + Len(v)>>, <<"T", 1>> >>, gov |-> L("G" \o v),
                       errv |-> IF v = "" THEN <<>> ELSE L("E" \o v), fmtv |-> L("F")]]
Other(which, cs, sv, ev) == [k |-> "other", which |-> which, caps |-> cs, strv |-> sv, gov |-> "", errv |-> ev, fmtv |-> "F",
                             h |-> 0, w |-> 0, tx |-> [strv |-> L(sv), gov |-> <<>>, errv |-> L(ev), fmtv |-> L("F")]]

Plain == {Str("a", L("a")), Str("", <<>>), Str("a\nbb", << <<"a", 1>>, <<"bb", 2>> >>),
          [k |-> "rune", s |-> "q", tx |-> [s |-> L("q")]], [k |-> "nil"]}
Objs == {Obj(cs, "") : cs \in CapSeqs}
Others == {Other("int42", <<>>, "", ""), Other("named", <<>>, "", ""), Other("struct", <<>>, "", ""),
           Other("strhidden", <<"String">>, "shown text", ""), Other("error", <<"Error">>, "", "plain error"),
           Other("strhiddenempty", <<"String">>, "", ""), Other("nilptr", <<>>, "", ""), Other("bytes", <<>>, "", "")}
Nested == {[k |-> "cell", inner |-> d] : d \in {Str("a", L("a")), [k |-> "nil"], Obj(<<"String">>, ""), Obj(<<"Error", "Height">>, "")}}
          \cup {[k |-> "cell", inner |-> [k |-> "cell", inner |-> Str("a\nbb", << <<"a", 1>>, <<"bb", 2>> >>)]]}
          \cup {[k |-> "cellptr", inner |-> d] : d \in {Str("a\nbb", << <<"a", 1>>, <<"bb", 2>> >>), Str("", <<>>), [k |-> "nil"],
                                                        Obj(<<"String", "Height", "Width">>, ""), Obj(<<"Error">>, "")}}
Alphabet == Plain \cup Objs \cup Others \cup Nested

TheCell == [kind |-> "cell", r |-> 1, c |-> 1]
HasRow == Len(st.row) > 0
CurItem == st.row[1].cells[1].item

Ops ==
  (IF ~HasRow THEN {[op |-> "rowitems", t |-> 1, items |-> <<d>>] : d \in Alphabet} ELSE {})
  \cup (IF HasRow /\ CurItem.k = "obj" /\ CurItem.gov = "G"
        THEN {[op |-> "mutate", cell |-> TheCell, item |-> Obj(CurItem.caps, v)] : v \in {"2", "empty"}} ELSE {})
  \cup (IF HasRow /\ CurItem.k = "obj" /\ CurItem.gov = ""
        THEN {[op |-> "mutate", cell |-> TheCell, item |-> Obj(CurItem.caps, "3")]} ELSE {})
  \cup (IF HasRow THEN {[op |-> "update", cell |-> TheCell]} ELSE {})

NewT == [op |-> "newtable", via |-> "core"]
Init == /\ st = Apply(InitState, NewT, <<>>) /\ hist = <<NewT>>
Next == /\ Len(hist) < MaxHist
        /\ \E op \in Ops : st' = Apply(st, op, <<>>) /\ hist' = Append(hist, op)
Spec == Init /\ [][Next]_vars
View == st
Emit == GenFile = "" \/ CSVWrite("%1$s", <<ToJson(hist')>>, GenFile)
Inv == Inv_C01(st)

\* the text changes only when the cell is (re)read, never by mutation alone
TextStable == [][\A r \in DOMAIN st.row : \A c \in DOMAIN st.row[r].cells :
                   (hist' # hist /\ hist'[Len(hist')].op = "mutate")
                      => st'.row[r].cells[c].txt = st.row[r].cells[c].txt]_vars
=============================================================================
