---------------------------- MODULE MCCallbacks ----------------------------
(***************************************************************************)
(* C13, bounded model: every (owner kind x time x target) registration,    *)
(* singly and (thorough) in pairs, registered at every point of the build  *)
(* script of each small table shape (so: before or after the rows exist),  *)
(* followed by one or two render passes.                                   *)
(***************************************************************************)
EXTENDS TabularRender, Json, CSV
CONSTANTS Shape, MaxCbs, MaxPasses, RegTimes, RegTargets, GenFile
VARIABLES st, hist, bi
vars == <<st, hist, bi>>

It(s) == [k |-> "str", s |-> s, tx |-> [s |-> << <<s, Len(s)>> >>]]

Script ==
  CASE Shape = "empty"  -> <<>>
    [] Shape = "hdr"    -> << [op |-> "headers", t |-> 1, items |-> <<It("h")>>] >>
    [] Shape = "one"    -> << [op |-> "rowitems", t |-> 1, items |-> <<It("a")>>] >>
    [] Shape = "built"  -> << [op |-> "newrow", how |-> "new", t |-> 1, cap |-> 0],
                              [op |-> "rowadd", r |-> 1, item |-> It("a")],
                              [op |-> "addrow", t |-> 1, r |-> 1],
                              [op |-> "rowadd", r |-> 1, item |-> It("late")] >>
    [] Shape = "copy"   -> << [op |-> "rowitems", t |-> 1, items |-> <<It("a")>>],
                              [op |-> "appendrow", t |-> 1],
                              \* two by-value copies of cell (1,1), callbacks and properties included
                              [op |-> "rowaddcell", r |-> 2, from |-> [kind |-> "cell", r |-> 1, c |-> 1]],
                              [op |-> "rowaddcell", r |-> 2, from |-> [kind |-> "cell", r |-> 1, c |-> 1]] >>
    \* one row in two tables (joined in the order 1, 2), a cell added after that
    [] Shape = "shared" -> << [op |-> "newtable", via |-> "core"],
                              [op |-> "newrow", how |-> "new", t |-> 1, cap |-> 0],
                              [op |-> "rowadd", r |-> 1, item |-> It("a")],
                              [op |-> "addrow", t |-> 1, r |-> 1],
                              [op |-> "addrow", t |-> 2, r |-> 1],
                              [op |-> "rowadd", r |-> 1, item |-> It("late")] >>
    [] Shape = "full"   -> << [op |-> "headers", t |-> 1, items |-> <<It("h"), It("i")>>],
                              [op |-> "rowitems", t |-> 1, items |-> <<It("a"), It("b")>>],
                              [op |-> "sep", t |-> 1],
                              [op |-> "rowitems", t |-> 1, items |-> <<It("c")>>] >>

T == st.tbl[1]
Times == RegTimes
Targets == RegTargets
CellRefs(rows, maxc) ==
  UNION {{[kind |-> "cell", r |-> r, c |-> c] : c \in 1..Min2(maxc, Len(st.row[r].cells))} : r \in rows}

TblIds == DOMAIN st.tbl
OwnersNow ==
  IF Shape = "copy" THEN CellRefs(DOMAIN st.row, 2)
  ELSE IF Shape = "shared"
  THEN {[kind |-> "table", t |-> t] : t \in TblIds}
       \cup {[kind |-> "column", t |-> t, n |-> 1] : t \in {x \in TblIds : st.tbl[x].ncols >= 1}}
       \cup {[kind |-> "row", r |-> r] : r \in DOMAIN st.row}
       \cup CellRefs(DOMAIN st.row, 1)
  ELSE
  {[kind |-> "table", t |-> 1], [kind |-> "foreign"]}
  \cup {[kind |-> "column", t |-> 1, n |-> n] : n \in 0..Min2(T.ncols, 1)}
  \cup {[kind |-> "row", r |-> r] : r \in {x \in DOMAIN st.row : x <= 2}}
  \cup CellRefs({x \in DOMAIN st.row : x = 1}, 1)
  \cup (IF T.hdrp /\ Len(T.hdr) >= 1 THEN {[kind |-> "hcell", t |-> 1, c |-> 1]} ELSE {})

NPasses == Cardinality({i \in DOMAIN hist : hist[i].op = "rendercbs"})

Ops ==
  (IF bi <= Len(Script) THEN {Script[bi]} ELSE {})
  \cup (IF Len(st.cb) < MaxCbs
        THEN {[op |-> "regcb", t |-> (IF "t" \in DOMAIN o THEN o.t ELSE 1), owner |-> o, time |-> tm, target |-> tg, fails |-> 0] :
                o \in OwnersNow, tm \in Times, tg \in Targets}
        ELSE {})
  \cup (IF NPasses < MaxPasses /\ Len(st.cb) > 0 THEN {[op |-> "rendercbs", t |-> t] : t \in TblIds} ELSE {})

NewT == [op |-> "newtable", via |-> "core"]
Init == /\ st = Apply(InitState, NewT, <<>>) /\ hist = <<NewT>> /\ bi = 1
Next == \E op \in Ops :
          /\ st' = Apply(st, op, ImplEvents(st, SlotsOfAll(st, op)))
          /\ hist' = Append(hist, op)
          /\ bi' = IF bi <= Len(Script) /\ op = Script[bi] THEN bi + 1 ELSE bi
Spec == Init /\ [][Next]_vars
View == <<st, bi, NPasses>>
Emit == GenFile = "" \/ CSVWrite("%1$s", <<ToJson(hist')>>, GenFile)

\* model level: the events the implementation-shaped dispatch performs satisfy
\* the declarative relation (required once, optional at most once, slot order)
DispatchOK ==
  \A op \in Ops : LET sl == SlotsOfAll(st, op) IN AgreeCbLog(st, sl, ImplEvents(st, sl))

\* a mark is visible through the table exactly where a callback ran
Inv == Inv_C02(st) /\ DispatchOK
=============================================================================
