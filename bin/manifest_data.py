HOOKS = {
    "guard": "verif",
    "enable": "go build -tags verif (bin/check builds harness/cmd/vdrive with -tags verif against /repo's working tree)",
    "baseline_off_cmd": "cd /repo && GOFLAGS=-mod=mod GOPROXY=off GOSUMDB=off go test -vet=off -count=1 ./...",
    "source_commits": [],
    "add_only": True,
}
NOTES = ("All checks: bin/check <id> --tier quick|thorough; exit 0 held / 1 VIOLATION / 2 machinery failure (no verdict). "
         "Verdicts come only from trace validation of the real library's behaviour against spec/*.tla; see DESIGN.md.")
MBT = "TLA+ spec + TLC model checking; TLC-generated and random scenarios replayed on the real code; TLC trace validation"
CHECKS = {
    "C02": {
        "text": "Exhaustive TLC exploration of all build histories within small bounds (every interleaving of the table-building calls) checks the declarative count/order/addressing invariants on the specification; every transition of that bounded model, plus seeded long random histories (wide tables, two tables), is executed on the real library and the full grid projection (counts, row order/identity, every location, CellAt over a frame larger than the table, Column(n) nil-ness, AllRows-copy scramble) is validated by TLC against the specification after the last step (after every step for the random ones).",
        "note": "Trusted: the Go driver's public-API projection (harness/cmd/vdrive/obs.go), TLC, the reading of header replacement in DESIGN 4.5. Bounded: histories beyond the bounds are sampled, not enumerated.",
        "technique": MBT,
    },
}
NOT_APPLICABLE = {}
