---------------------------- MODULE MCCallbacks ----------------------------
(***************************************************************************)
(* C13, bounded model: every (owner kind x time x target) registration,    *)
(* singly and (thorough) in pairs, registered at every point of the build  *)
(* script of each small table shape (so: before or after the rows exist),  *)
(* followed by one or two render passes.                                   *)
(***************************************************************************)
EXTENDS TabularRender, Json, CSV
CONSTANTS Shape, MaxCbs, MaxPasses, GenFile
VARIABLES st, hist, bi
vars == <<st, hist, bi>>

It(s) == [k |-> "str", s |-> s, tx |-> [s |-> << <<s, Len(s)>> >>]]

Script ==
  CASE Shape = "empty"  -> <<>>
    [] Shape = "hdr"    -> << [op |-> "headers", t |-> 1, items |-> <<It("h")>>] >>
    [] Shape = "one"    -> << [op |-> "rowitems", t |-> 1, items |-> <<It("a")>>] >>
    [] Shape = "built"  -> << [op |-> "newrow", how |-> "new", t |-> 1, cap |-> 0],
                              [op |-> "rowadd", r |-> 1, item |-> It("a")],
                              [op |-> "addrow", t |-> 1, r |-> 1],
                              [op |-> "rowadd", r |-> 1, item |-> It("late")] >>
    [] Shape = "full"   -> << [op |-> "headers", t |-> 1, items |-> <<It("h"), It("i")>>],
                              [op |-> "rowitems", t |-> 1, items |-> <<It("a"), It("b")>>],
                              [op |-> "sep", t |-> 1],
                              [op |-> "rowitems", t |-> 1, items |-> <<It("c")>>] >>

T == st.tbl[1]
Times == {"add", "pre", "render", "post"}
Targets == {"itself", "cell", "row"}
OwnersNow ==
  {[kind |-> "table", t |-> 1], [kind |-> "foreign"]}
  \cup {[kind |-> "column", t |-> 1, n |-> n] : n \in 0..Min2(T.ncols, 1)}
  \cup {[kind |-> "row", r |-> r] : r \in {x \in DOMAIN st.row : x <= 2}}
  \cup {[kind |-> "cell", r |-> r, c |-> 1] : r \in {x \in DOMAIN st.row : x = 1 /\ Len(st.row[x].cells) >= 1}}
  \cup {[kind |-> "hcell", t |-> 1, c |-> 1] : x \in {1} \cap {y \in {1} : T.hdrp /\ Len(T.hdr) >= 1}}

NPasses == Cardinality({i \in DOMAIN hist : hist[i].op = "rendercbs"})

Ops ==
  (IF bi <= Len(Script) THEN {Script[bi]} ELSE {})
  \cup (IF Len(st.cb) < MaxCbs
        THEN {[op |-> "regcb", t |-> 1, owner |-> o, time |-> tm, target |-> tg, fails |-> 0] :
                o \in OwnersNow, tm \in Times, tg \in Targets}
        ELSE {})
  \cup (IF NPasses < MaxPasses /\ Len(st.cb) > 0 THEN {[op |-> "rendercbs", t |-> 1]} ELSE {})

NewT == [op |-> "newtable", via |-> "core"]
Init == /\ st = Apply(InitState, NewT, <<>>) /\ hist = <<NewT>> /\ bi = 1
Next == \E op \in Ops :
          /\ st' = Apply(st, op, ImplEvents(st, SlotsOfAll(st, op)))
          /\ hist' = Append(hist, op)
          /\ bi' = IF bi <= Len(Script) /\ op = Script[bi] THEN bi + 1 ELSE bi
Spec == Init /\ [][Next]_vars
View == <<st, bi, NPasses>>
Emit == GenFile = "" \/ CSVWrite("%1$s", <<ToJson(hist')>>, GenFile)

\* model level: the events the implementation-shaped dispatch performs satisfy
\* the declarative relation (required once, optional at most once, slot order)
DispatchOK ==
  \A op \in Ops : LET sl == SlotsOfAll(st, op) IN AgreeCbLog(st, sl, ImplEvents(st, sl))

\* a mark is visible through the table exactly where a callback ran
Inv == Inv_C02(st) /\ DispatchOK
=============================================================================
