package main

import (
	"bufio"
	"os"
)

func (w *world) execRender2(op M) bool { return false }

func (w *world) observeMore(obs M, facets map[string]bool, op M) {}

type substitution struct{}

func newSubstitution(seed int64, pool string) *substitution { return &substitution{} }
func (s *substitution) applyOp(op M)                        {}

func runRegistryMode(in *os.File, w *bufio.Writer)                  { derr("not built") }
func runConcMode(in *os.File, w *bufio.Writer, f map[string]bool) { derr("not built") }
