---------------------------- MODULE MCConcurrent ----------------------------
EXTENDS Concurrent
MCOwners == {1, 2, 3}
MCScript == (1 :> <<"build", "heavy", "build">> @@ 2 :> <<"heavy", "build", "none">> @@ 3 :> <<"build", "none", "heavy">>)
MCBuiltin == {"heavy", "none"}
MCFresh == {"f1", "f2"}
=============================================================================
