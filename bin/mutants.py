#!/usr/bin/env python3
"""Seeded changes (mutants) of PennockTech/tabular, used to test the checks.

  bin/mutants.py import <OUT dir> <k> <id>     copy patch_k.diff / demo / meta_k.json into seeded/<id>/
  bin/mutants.py confirm <id>...               in a scratch worktree: patch applies, library builds, the existing tests
                                               pass, the demonstration fails with the patch and passes without
  bin/mutants.py run <id>... [--checks C01,C02] [--tier quick]
                                               apply the patch to /repo, run the checks, undo; records which checks alarm
  bin/mutants.py index                         writes seeded/INDEX.md

Nothing here ever commits to /repo; the patch is applied with `git apply` and undone with `git checkout -- .`.
"""
import json
import os
import re
import shutil
import subprocess
import sys
import tempfile
import time

V = os.path.dirname(os.path.dirname(os.path.abspath(__file__)))
SEEDED = os.path.join(V, "seeded")
REPO = "/repo"
# checks run here work on a patched /repo: their evidence goes to a scratch directory, never to /verif/evidence
ENV = dict(os.environ, GOFLAGS="-mod=mod", GOPROXY="off", GOSUMDB="off", GOTOOLCHAIN="local",
           VERIF_EVIDENCE_DIR=os.path.join(V, "out", "evidence-of-patched-trees"))


def sh(cmd, cwd=None, timeout=1800):
    p = subprocess.run(cmd, cwd=cwd, env=ENV, stdout=subprocess.PIPE, stderr=subprocess.STDOUT, timeout=timeout, shell=isinstance(cmd, str))
    return p.returncode, p.stdout.decode("utf-8", errors="replace")


def load_meta(mid):
    return json.load(open(os.path.join(SEEDED, mid, "meta.json")))


def save_meta(mid, m):
    json.dump(m, open(os.path.join(SEEDED, mid, "meta.json"), "w"), indent=1)


def cmd_import(out, k, mid):
    d = os.path.join(SEEDED, mid)
    os.makedirs(d, exist_ok=True)
    shutil.copyfile(os.path.join(out, "patch_%s.diff" % k), os.path.join(d, "patch.diff"))
    demos = [f for f in os.listdir(out) if f.startswith("demo_%s" % k)]
    for f in demos:
        shutil.copyfile(os.path.join(out, f), os.path.join(d, f))
    m = json.load(open(os.path.join(out, "meta_%s.json" % k)))
    m["demo_files"] = demos
    m["source"] = "independent sub-agent given only the property text and a scratch worktree"
    save_meta(mid, m)
    print("imported", mid, "->", d)


def demo_target(path):
    """Where the demo test must be copied ('// copy to: dir/'); default: repository root."""
    for line in open(path):
        m = re.search(r"copy to:?\s*([\w./-]+)", line)
        if m:
            return m.group(1).strip().rstrip("/")
    return "."


def run_demo(wt, mid, m):
    """Returns (ok, output): ok = the demonstration passes."""
    d = os.path.join(SEEDED, mid)
    outs = []
    ok = True
    copied = []
    try:
        for f in m.get("demo_files", []):
            src = os.path.join(d, f)
            if f.endswith("_test.go"):
                tgt = demo_target(src)
                dst = os.path.join(wt, tgt, "zz_" + f)
                os.makedirs(os.path.dirname(dst), exist_ok=True)
                shutil.copyfile(src, dst)
                copied.append(dst)
                race = ["-race"] if m.get("race") or "-race" in (m.get("demo") or "") else []
                rc, out = sh(["go", "test", "-vet=off", "-count=1"] + race + ["./" + tgt + "/"], cwd=wt, timeout=900)
                outs.append(out[-1500:])
                ok = ok and rc == 0
            elif f.endswith(".go"):
                tdir = os.path.join(wt, "zz_demo_main")
                os.makedirs(tdir, exist_ok=True)
                shutil.copyfile(src, os.path.join(tdir, "main.go"))
                copied.append(tdir)
                rc, out = sh(["go", "run", "./zz_demo_main"], cwd=wt, timeout=900)
                outs.append(out[-1500:])
                ok = ok and rc == 0
    finally:
        for c in copied:
            shutil.rmtree(c, ignore_errors=True) if os.path.isdir(c) else os.remove(c)
    return ok, "\n".join(outs)


def cmd_confirm(ids):
    for mid in ids:
        m = load_meta(mid)
        wt = tempfile.mkdtemp(prefix="mutwt-", dir="/tmp")
        os.rmdir(wt)
        try:
            rc, out = sh(["git", "-C", REPO, "worktree", "add", "-q", "--detach", wt, "HEAD"])
            if rc:
                print(mid, "worktree failed", out)
                continue
            res = {}
            ok0, o0 = run_demo(wt, mid, m)
            res["demo_passes_without_patch"] = ok0
            rc, out = sh(["git", "apply", os.path.join(SEEDED, mid, "patch.diff")], cwd=wt)
            res["patch_applies"] = rc == 0
            if rc == 0:
                rc, out = sh("go build ./... && go test -vet=off -count=1 ./...", cwd=wt)
                res["builds_and_existing_tests_pass"] = rc == 0
                if rc:
                    res["test_output"] = out[-1500:]
                ok1, o1 = run_demo(wt, mid, m)
                res["demo_fails_with_patch"] = not ok1
                res["demo_output_with_patch"] = o1[-1200:]
            m["confirmed"] = res
            m["confirmed_ok"] = bool(res.get("patch_applies") and res.get("builds_and_existing_tests_pass")
                                     and res.get("demo_passes_without_patch") and res.get("demo_fails_with_patch"))
            m["confirmed_at_repo_commit"] = sh(["git", "-C", REPO, "log", "--format=%h", "-1"])[1].strip()
            save_meta(mid, m)
            print(mid, "confirmed_ok=%s" % m["confirmed_ok"], {k: v for k, v in res.items() if isinstance(v, bool)})
        finally:
            sh(["git", "-C", REPO, "worktree", "remove", "--force", wt])
            shutil.rmtree(wt, ignore_errors=True)


def cmd_run(ids, checks, tier):
    rc, out = sh(["git", "-C", REPO, "status", "--porcelain"])
    if out.strip():
        print("/repo is not clean; refusing")
        return 2
    for mid in ids:
        m = load_meta(mid)
        cs = checks or [m["property"]]
        if checks == ["regress"]:
            # regression of the machinery: the property's own check and every check that caught it before, from scratch
            cs = sorted(set([m["property"]] + list(m.get("caught_by", []))))
            m["checks"] = {}
        rc, out = sh(["git", "-C", REPO, "apply", os.path.join(SEEDED, mid, "patch.diff")])
        if rc:
            print(mid, "patch does not apply:", out)
            continue
        results = m.setdefault("checks", {})
        try:
            for c in cs:
                t0 = time.time()
                rc, out = sh([os.path.join(V, "bin", "check"), c, "--tier", tier], cwd=V, timeout=7200)
                viol = re.findall(r"^VIOLATION property=(\S+) replay=(\S+)", out, re.M)
                mism = re.findall(r"^MISMATCH (.{0,300})", out, re.M)
                results[c] = {"tier": tier, "exit": rc, "violations": len(viol), "first_mismatch": (mism[0] if mism else ""),
                              "wall_s": round(time.time() - t0, 1)}
                if rc == 2:
                    results[c]["error"] = out[-800:]
                print(mid, c, "exit=%d violations=%d %s" % (rc, len(viol), (mism[0][:160] if mism else "")))
        finally:
            sh(["git", "-C", REPO, "checkout", "--", "."])
            sh(["git", "-C", REPO, "clean", "-fdq"])
        m["caught_by"] = sorted(c for c, r in results.items() if r["exit"] == 1)
        save_meta(mid, m)
    # evidence files were rewritten by runs against a patched tree: regenerate them on the clean tree
    return 0


def cmd_equiv(names, tier):
    """Equivalent variants: changes that alter bytes / structure but violate no property; every listed check must stay silent."""
    rc, out = sh(["git", "-C", REPO, "status", "--porcelain"])
    if out.strip():
        print("/repo is not clean; refusing")
        return 2
    base = os.path.join(SEEDED, "equiv")
    for name in names or sorted(os.listdir(base)):
        mp = os.path.join(base, name, "meta.json")
        if not os.path.exists(mp):
            continue
        m = json.load(open(mp))
        rc, out = sh(["git", "-C", REPO, "apply", os.path.join(base, name, "patch.diff")])
        if rc:
            print(name, "patch does not apply:", out)
            continue
        res = m.setdefault("results", {})
        try:
            rc, out = sh("go build ./... && go test -vet=off -count=1 ./...", cwd=REPO)
            m["existing_tests_pass"] = rc == 0
            for c in m["checks"]:
                rc, out = sh([os.path.join(V, "bin", "check"), c, "--tier", tier], cwd=V, timeout=7200)
                mism = re.findall(r"^MISMATCH (.{0,300})", out, re.M)
                res[c] = {"exit": rc, "first_mismatch": mism[0] if mism else "", "error": out[-600:] if rc == 2 else ""}
                print(name, c, "exit=%d %s" % (rc, mism[0][:200] if mism else ""))
        finally:
            sh(["git", "-C", REPO, "checkout", "--", "."])
            sh(["git", "-C", REPO, "clean", "-fdq"])
        m["silent"] = all(r["exit"] == 0 for r in res.values())
        json.dump(m, open(mp, "w"), indent=1)
    return 0


def cmd_index():
    rows = []
    for mid in sorted(os.listdir(SEEDED)):
        mp = os.path.join(SEEDED, mid, "meta.json")
        if not os.path.exists(mp):
            continue
        m = json.load(open(mp))
        ran = ", ".join("%s:%s" % (c, {0: "pass", 1: "ALARM", 2: "error"}.get(r["exit"], r["exit"])) for c, r in sorted(m.get("checks", {}).items()))
        rows.append("| %s | %s | %s | %s | %s | %s |" % (mid, m.get("property"), (m.get("summary") or "").replace("|", "/")[:160],
                                                    (m.get("needs") or "").replace("|", "/")[:140], "yes" if m.get("confirmed_ok") else "NO", ran))
    with open(os.path.join(SEEDED, "INDEX.md"), "w") as f:
        f.write("# Seeded changes and the checks that catch them\n\n"
                "Each change was written by an independent sub-agent that saw only the property text and a scratch worktree; it compiles, "
                "passes the repository's 43 tests, and comes with a demonstration that fails with the change and passes without "
                "(`confirmed`: re-verified by `bin/mutants.py confirm`). `checks run`: exit status of `bin/check <id> --tier quick` with the patch applied to /repo "
                "(ALARM = exit 1 with a VIOLATION line).\n\n"
                "| id | property | change | needs | confirmed | checks run |\n|---|---|---|---|---|---|\n")
        f.write("\n".join(rows) + "\n")
        base = os.path.join(SEEDED, "equiv")
        if os.path.isdir(base):
            f.write("\n## Equivalent variants (no property violated: the checks must stay silent)\n\n"
                    "Hand-written changes that alter the output bytes or the implementation strategy without violating any property "
                    "(several of them fail the repository's golden-string tests, which pin bytes the properties leave free). "
                    "`bin/mutants.py equiv` applies each, runs the listed checks and expects exit 0.\n\n"
                    "| variant | change | repository tests | checks run |\n|---|---|---|---|\n")
            for name in sorted(os.listdir(base)):
                mp = os.path.join(base, name, "meta.json")
                if os.path.exists(mp):
                    m = json.load(open(mp))
                    ran = ", ".join("%s:%s" % (c, {0: "silent", 1: "ALARM", 2: "error"}.get(r["exit"], r["exit"])) for c, r in sorted(m.get("results", {}).items()))
                    f.write("| %s | %s | %s | %s |\n" % (name, m["summary"], {True: "pass", False: "fail (golden bytes)", None: "?"}[m.get("existing_tests_pass")], ran))
    print("wrote seeded/INDEX.md (%d mutants)" % len(rows))


def main():
    a = sys.argv[1:]
    if not a:
        print(__doc__)
        return 2
    if a[0] == "import":
        return cmd_import(a[1], a[2], a[3])
    if a[0] == "confirm":
        return cmd_confirm(a[1:])
    if a[0] == "run":
        ids, checks, tier = [], None, "quick"
        it = iter(a[1:])
        for x in it:
            if x == "--checks":
                checks = next(it).split(",")
            elif x == "--tier":
                tier = next(it)
            else:
                ids.append(x)
        return cmd_run(ids, checks, tier)
    if a[0] == "equiv":
        tier = "quick"
        names = [x for x in a[1:] if not x.startswith("--")]
        return cmd_equiv(names, tier)
    if a[0] == "index":
        return cmd_index()
    print(__doc__)
    return 2


if __name__ == "__main__":
    sys.exit(main() or 0)
