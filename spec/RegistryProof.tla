--------------------------- MODULE RegistryProof ---------------------------
(***************************************************************************)
(* TLAPS proof that the lock / body / unlock discipline of Registry.tla    *)
(* keeps mutual exclusion for ANY set of processes and for ever (the TLC   *)
(* runs cover 3 processes x 2 operations; Apalache the inductive step for  *)
(* 4 processes).  The registry content is abstracted to a version counter. *)
(***************************************************************************)
EXTENDS Integers, TLAPS

CONSTANT Procs
ASSUME ProcsAssm == 0 \notin Procs

VARIABLES lock, pc, version
vars == <<lock, pc, version>>

Init == /\ lock = 0 /\ pc = [p \in Procs |-> "idle"] /\ version = 0

Lock(p) == /\ pc[p] = "idle" /\ lock = 0
           /\ lock' = p /\ pc' = [pc EXCEPT ![p] = "locked"] /\ UNCHANGED version
Body(p) == /\ pc[p] = "locked" /\ lock = p
           /\ pc' = [pc EXCEPT ![p] = "done"]
           /\ (version' = version + 1 \/ UNCHANGED version)
           /\ UNCHANGED lock
Unlock(p) == /\ pc[p] = "done" /\ lock = p
             /\ lock' = 0 /\ pc' = [pc EXCEPT ![p] = "idle"] /\ UNCHANGED version

Next == \E p \in Procs : Lock(p) \/ Body(p) \/ Unlock(p)
Spec == Init /\ [][Next]_vars

TypeOK == /\ lock \in Procs \cup {0}
          /\ pc \in [Procs -> {"idle", "locked", "done"}]

MutualExclusion == \A p, q \in Procs : (pc[p] # "idle" /\ pc[q] # "idle") => p = q

IndInv == /\ TypeOK
          /\ \A p \in Procs : (pc[p] # "idle") <=> (lock = p)

LEMMA IndImpliesME == IndInv => MutualExclusion
  BY DEF IndInv, MutualExclusion

THEOREM Safety == Spec => []MutualExclusion
<1>1. Init => IndInv
  BY ProcsAssm DEF Init, IndInv, TypeOK
<1>2. IndInv /\ [Next]_vars => IndInv'
  <2> SUFFICES ASSUME IndInv, [Next]_vars PROVE IndInv'
    OBVIOUS
  <2>1. ASSUME NEW p \in Procs, Lock(p) PROVE IndInv'
    BY <2>1, ProcsAssm DEF Lock, IndInv, TypeOK
  <2>2. ASSUME NEW p \in Procs, Body(p) PROVE IndInv'
    BY <2>2, ProcsAssm DEF Body, IndInv, TypeOK
  <2>3. ASSUME NEW p \in Procs, Unlock(p) PROVE IndInv'
    BY <2>3, ProcsAssm DEF Unlock, IndInv, TypeOK
  <2>4. CASE UNCHANGED vars
    BY <2>4 DEF vars, IndInv, TypeOK
  <2>5. QED
    BY <2>1, <2>2, <2>3, <2>4 DEF Next
<1>3. IndInv => MutualExclusion
  BY IndImpliesME
<1>4. QED
  BY <1>1, <1>2, <1>3, PTL DEF Spec
=============================================================================
