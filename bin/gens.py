"""Seeded random scenario generators over the rich alphabets (python3 stdlib).

Every generator returns a list of scenarios; a scenario is a list of operation
records in the wire format of the specification (DESIGN appendix A). The
generators track just enough of the abstract state (row ids, which are
detached, cell counts) to emit only well-formed operations.
"""
import random


def S(s):
    return {"k": "str", "s": s}


WORDS = ["a", "bb", "ccc", "", "x y", "line1\nline2", "tail\n", "\nlead", "日本", "é", "z​w",
         "\U0001F468‍\U0001F469‍\U0001F467", "\U0001F1E9\U0001F1EA", "wideＡ", "tab\there", "0", "-1.5"]


def rnd_item(rng, words=WORDS):
    r = rng.random()
    if r < 0.75:
        return S(rng.choice(words))
    if r < 0.8:
        return {"k": "nil"}
    if r < 0.85:
        return {"k": "rune", "s": rng.choice(["q", "é", "日"])}
    if r < 0.93:
        caps = [c for c in ["String", "GoString", "Error", "Height", "Width"] if rng.random() < 0.4]
        return {"k": "obj", "caps": caps, "strv": rng.choice(words), "gov": rng.choice(words), "errv": rng.choice(words),
                "h": rng.randint(0, 3), "w": rng.randint(0, 6)}
    if r < 0.97:
        return {"k": "other", "which": rng.choice(["int42", "float", "true", "named", "struct", "strhidden", "error", "slice", "map"])}
    return {"k": "cell", "inner": S(rng.choice(words))}


class GridBuilder:
    """Tracks ids while emitting table-building operations."""

    def __init__(self, rng, ntables=1, via=None):
        self.rng = rng
        self.ops = []
        self.rows = []        # per row object: dict(sep, n, tbl)
        self.ntables = 0
        self.tblrows = []
        for i in range(ntables):
            self.new_table((via or ["core"])[i % len(via or ["core"])])

    def new_table(self, via="core", style=None):
        op = {"op": "newtable", "via": via}
        if style is not None:
            op["style"] = style
        self.ops.append(op)
        self.ntables += 1
        self.tblrows.append([])
        return self.ntables

    def step(self, maxcells=4, items=None, weights=None):
        rng = self.rng
        items = items or (lambda: rnd_item(rng))
        t = rng.randint(1, self.ntables)
        detached = [i + 1 for i, r in enumerate(self.rows) if r["tbl"] == 0]
        growable = [i + 1 for i, r in enumerate(self.rows)]
        w = weights or {"headers": 1, "rowitems": 4, "sep": 1, "appendrow": 1, "newrow": 1, "rowadd": 3, "addrow": 2}
        choices = [k for k in w for _ in range(w[k])]
        attached = [i + 1 for i, r in enumerate(self.rows) if r["tbl"] != 0 and not r["sep"]]
        while True:
            k = rng.choice(choices)
            if k == "rowadd" and not growable:
                continue
            if k == "addrow" and not detached:
                continue
            if k == "readd" and not attached:
                continue
            break
        if k == "readd":
            # a row that is already in a table is added again (to the same or another table)
            r = rng.choice(attached)
            self.ops.append({"op": "addrow", "t": t, "r": r})
            self.rows[r - 1]["tbl"] = t
            return k
        if k == "headers":
            self.ops.append({"op": "headers", "t": t, "items": [items() for _ in range(rng.randint(0, maxcells))]})
        elif k == "rowitems":
            n = rng.randint(0, maxcells)
            self.ops.append({"op": "rowitems", "t": t, "items": [items() for _ in range(n)]})
            self.rows.append({"sep": False, "n": n, "tbl": t})
        elif k == "sep":
            self.ops.append({"op": "sep", "t": t})
            self.rows.append({"sep": True, "n": 0, "tbl": t})
        elif k == "appendrow":
            self.ops.append({"op": "appendrow", "t": t})
            self.rows.append({"sep": False, "n": 0, "tbl": t})
        elif k == "newrow":
            how = rng.choice(["sizedfor", "new", "cap"])
            self.ops.append({"op": "newrow", "how": how, "t": t, "cap": rng.randint(0, 3)})
            self.rows.append({"sep": False, "n": 0, "tbl": 0})
        elif k == "rowadd":
            r = rng.choice(growable)
            self.ops.append({"op": "rowadd", "r": r, "item": items()})
            if not self.rows[r - 1]["sep"]:
                self.rows[r - 1]["n"] += 1
        elif k == "addrow":
            r = rng.choice(detached)
            self.ops.append({"op": "addrow", "t": t, "r": r})
            self.rows[r - 1]["tbl"] = t
        return k


def gen_grid(seed, tier):
    """C02: long random build histories, including wide tables (>= 12 columns) and two tables."""
    rng = random.Random(seed * 7919 + 1)
    n = 300 if tier == "quick" else 6000
    out = []
    for i in range(n):
        b = GridBuilder(rng, ntables=1 if i % 5 else 2)
        steps = rng.randint(3, 25)
        wide = i % 7 == 0
        if i % 11 == 0:
            # a row shared by several tables (joined in various orders, also the same table twice), then cells added late
            b = GridBuilder(rng, ntables=rng.randint(2, 3))
            # (some of the tables are already wider than the shared row will be when it joins, some narrower:
            # a late cell must widen exactly those it outgrows, whichever the row joined last)
            for t in range(1, b.ntables + 1):
                if rng.random() < 0.5:
                    b.ops.append({"op": "rowitems", "t": t, "items": [S("w")] * rng.randint(1, 4)})
                    b.rows.append({"sep": False, "n": 0, "tbl": t})
            shared = len(b.rows) + 1
            b.ops.append({"op": "newrow", "how": "new", "t": 1, "cap": 0})
            b.rows.append({"sep": False, "n": 0, "tbl": 0})
            for _ in range(rng.randint(0, 2)):
                b.ops.append({"op": "rowadd", "r": shared, "item": S("a")})
            for _ in range(rng.randint(2, 5)):
                b.ops.append({"op": "addrow", "t": rng.randint(1, b.ntables), "r": shared})
            for _ in range(rng.randint(1, 3)):
                b.ops.append({"op": "rowadd", "r": shared, "item": S("bb")})
            out.append(b.ops)
            continue
        w = {"headers": 1, "rowitems": 4, "sep": 1, "appendrow": 1, "newrow": 1, "rowadd": 3, "addrow": 2}
        if i % 3 == 0:
            w["readd"] = 1
        for _ in range(steps):
            b.step(maxcells=14 if wide else 4, items=lambda: S(rng.choice(["a", "bb", ""])), weights=w)
        out.append(b.ops)
    return out


RICH = ["a", "word", "two words", " ", "é", "日本語", "ｗｉｄｅ", "é", "z​w", "‍", "\U0001F600",
        "\U0001F468‍\U0001F469‍\U0001F467", "\U0001F1E9\U0001F1EA", "\U0001F44D\U0001F3FD", "\t", "", "́", "­",
        "Ω≈ç√", "한글", "\r", "\x00", "﻿", "️", "a᷀b"]


def gen_metrics(seed, tier):
    """C18: random token strings (line feeds leading, trailing, repeated; rich chunks)."""
    rng = random.Random(seed * 104729 + 18)
    n = 400 if tier == "quick" else 20000
    out = []
    for _ in range(n):
        k = rng.randint(0, 12)
        parts = []
        for _ in range(k):
            parts.append("\n" if rng.random() < 0.4 else rng.choice(RICH))
        out.append([{"op": "measure", "parts": parts}])
    return out


def rnd_obj(rng, words, caps=None):
    if caps is None:
        caps = [c for c in ["String", "GoString", "Error", "Height", "Width"] if rng.random() < 0.45]
    return {"k": "obj", "caps": caps, "strv": rng.choice(words), "gov": rng.choice(words), "errv": rng.choice(words),
            "h": rng.randint(-1, 4), "w": rng.randint(-1, 9)}


OTHERS = ["int42", "int0", "negint", "int64big", "uint8", "float", "floatexp", "true", "false", "named", "namedempty",
          "bytes", "struct", "structptr", "hidden", "strhidden", "strhiddenempty", "map", "emptymap", "slice",
          "emptyslice", "marshaler", "nilptr", "complex", "error", "float32", "float32b", "inf", "nan",
          "valslice:a,b", "valslice:one"]


def gen_items(seed, tier):
    """C01: items of every kind with rich payloads; mutate / update in random order."""
    rng = random.Random(seed * 15485863 + 1)
    n = 300 if tier == "quick" else 8000
    out = []
    for _ in range(n):
        ops = [{"op": "newtable", "via": "core"}]
        items = []
        for _ in range(rng.randint(1, 4)):
            r = rng.random()
            if r < 0.3:
                items.append(S(rng.choice(WORDS)))
            elif r < 0.6:
                items.append(rnd_obj(rng, WORDS))
            elif r < 0.75:
                items.append({"k": "other", "which": rng.choice(OTHERS + ["valslice:a,b", "float32"])})
            elif r < 0.8:
                items.append({"k": "nil"})
            elif r < 0.87:
                items.append({"k": "rune", "s": rng.choice(["q", "é", "日", "\U0001F600"])})
            else:
                inner = rng.choice([S(rng.choice(WORDS)), rnd_obj(rng, WORDS), {"k": "nil"}])
                d = {"k": rng.choice(["cell", "cell", "cellptr"]), "inner": inner}
                if rng.random() < 0.3:
                    d = {"k": "cell", "inner": d}
                items.append(d)
        asrow = rng.random() < 0.8
        detached = asrow and rng.random() < 0.3
        if detached:
            # cells placed in a row that joins the table only later (possibly after the item was mutated)
            ops.append({"op": "newrow", "how": "new", "t": 1, "cap": 0})
            for it in items:
                ops.append({"op": "rowadd", "r": 1, "item": it})
        else:
            ops.append({"op": "rowitems" if asrow else "headers", "t": 1, "items": items})
        for _ in range(rng.randint(0, 5)):
            c = rng.randint(1, len(items))
            ref = {"kind": "cell", "r": 1, "c": c} if asrow else {"kind": "hcell", "t": 1, "c": c}
            if items[c - 1]["k"] == "obj" and rng.random() < 0.6:
                ni = rnd_obj(rng, WORDS, caps=list(items[c - 1]["caps"]))
                ops.append({"op": "mutate", "cell": ref, "item": ni})
            elif items[c - 1].get("which", "").startswith("valslice:") and rng.random() < 0.8:
                # a struct VALUE that shares a slice with the outside changes behind the cell's back as well
                n = len(items[c - 1]["which"].split(":")[1].split(","))
                ops.append({"op": "mutate", "cell": ref, "item": {"k": "other", "which": "valslice:" + ",".join(rng.choice(["x", "yy", "zed"]) for _ in range(n))}})
                if rng.random() < 0.7:
                    ops.append({"op": "update", "cell": ref})
            else:
                ops.append({"op": "update", "cell": ref})
        if detached:
            ops.append({"op": "addrow", "t": 1, "r": 1})
        # "the same text as shown by every renderer": CSV and HTML show exactly the cell texts
        k = rng.choice(["csv", "html", "none"])
        if k != "none":
            ops.append({"op": "wrap", "kind": k, "over": {"t": 1}})
            ops.append({"op": "render", "w": 1, "entry": "Render"})
        out.append(ops)
    return out


CB_COMBOS = [(ok, tm, tg) for ok in ["table", "column", "row", "cell", "hcell", "foreign"]
             for tm in ["add", "pre", "render", "post"] for tg in ["itself", "cell", "row"]]


def rnd_owner(rng, b, kinds=None):
    """A reference to an existing owner of builder b (None if none of that kind exists)."""
    kinds = kinds or ["table", "column", "row", "cell"]
    for _ in range(10):
        k = rng.choice(kinds)
        if k == "table":
            return {"kind": "table", "t": rng.randint(1, b.ntables)}
        if k == "column":
            return None  # columns need the model's column count; callers handle them
        if k == "row" and b.rows:
            return {"kind": "row", "r": rng.randint(1, len(b.rows))}
        if k == "cell":
            cands = [i + 1 for i, r in enumerate(b.rows) if r["n"] > 0]
            if cands:
                r = rng.choice(cands)
                return {"kind": "cell", "r": r, "c": rng.randint(1, b.rows[r - 1]["n"])}
    return {"kind": "table", "t": 1}


def gen_errors(seed, tier):
    """C11: build histories with errors on rows/tables, failing callbacks at every level, raw containers."""
    rng = random.Random(seed * 32452843 + 11)
    n = 300 if tier == "quick" else 6000
    out = []
    for i in range(n):
        # (every third history has two tables: rows, and their errors, may then be in both)
        b = GridBuilder(rng, ntables=2 if i % 3 == 1 else 1)
        necs = 0
        eid = 0
        ncols = 0
        for _ in range(rng.randint(3, 18)):
            r = rng.random()
            eid += 1
            if r < 0.4:
                before = len(b.ops)
                b.step(maxcells=3, items=lambda: S(rng.choice(["a", "bb", ""])),
                       weights={"headers": 1, "rowitems": 4, "sep": 1, "appendrow": 1, "newrow": 1, "rowadd": 3, "addrow": 2,
                                "readd": (3 if b.ntables > 1 else 1) if i % 4 == 0 or b.ntables > 1 else 0})
                op = b.ops[-1]
                if op["op"] in ("headers", "rowitems") and op["t"] == 1:
                    ncols = max(ncols, len(op["items"]))
                ncols = max([ncols] + [x["n"] for x in b.rows if x["tbl"] == 1])
            elif r < 0.5 and b.rows:
                cands = [j + 1 for j, x in enumerate(b.rows) if not x["sep"]]
                if cands:
                    b.ops.append({"op": "rowerr", "r": rng.choice(cands), "e": "nil" if rng.random() < 0.15 else "E%d" % eid})
            elif r < 0.55:
                b.ops.append({"op": "tblerr", "t": rng.randint(1, b.ntables), "e": "nil" if rng.random() < 0.15 else "E%d" % eid})
            elif r < 0.7:
                # a failing callback somewhere sensible
                choices = [({"kind": "table", "t": 1}, tm, tg) for tm, tg in
                           [("add", "row"), ("add", "cell"), ("pre", "itself"), ("post", "itself"), ("pre", "cell"), ("render", "cell"), ("post", "cell")]]
                for c in range(1, ncols + 1):
                    choices += [({"kind": "column", "t": 1, "n": c}, tm, tg) for tm, tg in
                                [("add", "cell"), ("pre", "cell"), ("post", "cell"), ("pre", "itself"), ("post", "itself")]]
                for j, x in enumerate(b.rows):
                    if not x["sep"]:
                        choices += [({"kind": "row", "r": j + 1}, tm, tg) for tm, tg in
                                    [("add", "cell"), ("pre", "cell"), ("post", "cell"), ("pre", "itself"), ("post", "row")]]
                        for c in range(1, x["n"] + 1):
                            choices.append(({"kind": "cell", "r": j + 1, "c": c}, "render", rng.choice(["itself", "cell"])))
                o, tm, tg = rng.choice(choices)
                # fails 1: a fresh error per invocation; 2: the same sentinel error value every time (and from every such callback)
                b.ops.append({"op": "regcb", "t": 1, "owner": o, "time": tm, "target": tg, "fails": rng.choice([1, 1, 1, 2, 2, 0])})
                if rng.random() < 0.3:
                    b.ops.append({"op": "regcb", "t": 1, "owner": o, "time": tm, "target": tg, "fails": 2})
            elif r < 0.75:
                b.ops.append({"op": "rendercbs", "t": 1})
            elif r < 0.8:
                # a real render: errors of failing render-time callbacks are accumulated once per pass
                b.ops.append({"op": "render", "pkg": rng.choice(["text", "csv", "html", "json", "md"]), "t": 1,
                              "entry": rng.choice(["Render", "RenderTo"])})
            elif r < 0.86:
                b.ops.append({"op": "ecnew", "kind": rng.choice(["made", "zero", "nil"])})
                necs += 1
            elif necs:
                ec = rng.randint(1, necs)
                k = rng.random()
                if k < 0.3:
                    b.ops.append({"op": "ecadd", "ec": ec, "e": "nil" if rng.random() < 0.2 else "E%d" % eid})
                elif k < 0.7:
                    lst = ["nil" if rng.random() < 0.3 else "E%d_%d" % (eid, q) for q in range(rng.randint(0, 4))]
                    b.ops.append({"op": "ecaddlist", "ec": ec, "list": lst})
                elif k < 0.9:
                    b.ops.append({"op": "ecaddlist", "ec": ec, "from": rng.randint(1, necs)})
                else:
                    b.ops.append({"op": "ecaddlist", "ec": ec, "nillist": 1})
        out.append(b.ops)
    return out


KEYS = ["k_int", "k_int64", "k_u8", "k_str", "k_named", "k_sA", "k_sB", "k_p1", "k_p2", "k_align", "k_skip"]
VALS = ["v1", "v2", "v3", "vtrue", "vfalse", "vL", "vR", "vC", "vbad", "nil", "vq1", "vq2", "vq1", "vq2"]


def gen_props(seed, tier):
    """C12: set/set-nil over many owners and type-distinct keys, copies, handles, growth (>= 12 columns)."""
    rng = random.Random(seed * 49979687 + 12)
    n = 300 if tier == "quick" else 6000
    out = []
    for i in range(n):
        b = GridBuilder(rng)
        ncols = 0
        hdr = 0
        ncv = 0
        handles = 0
        keys = rng.sample(KEYS, rng.randint(2, 5))
        for _ in range(rng.randint(4, 24)):
            r = rng.random()
            if r < 0.3:
                wide = rng.random() < 0.15
                b.step(maxcells=13 if wide else 3, items=lambda: S(rng.choice(["a", "b", "name", "n"])),
                       weights={"headers": 2, "rowitems": 4, "sep": 1, "appendrow": 1, "newrow": 1, "rowadd": 2, "addrow": 2})
                op = b.ops[-1]
                if op["op"] == "headers":
                    hdr = len(op["items"])
                    ncols = max(ncols, hdr)
                ncols = max([ncols] + [x["n"] for x in b.rows if x["tbl"]])
            elif r < 0.38:
                cells = [(j + 1, c) for j, x in enumerate(b.rows) for c in range(1, x["n"] + 1)]
                srcs = [{"kind": "cell", "r": a, "c": c} for a, c in cells] + [{"kind": "cellvar", "v": v} for v in range(1, ncv + 1)]
                srcs += [{"kind": "hcell", "t": 1, "c": c} for c in range(1, hdr + 1)]
                if srcs:
                    b.ops.append({"op": "copycell", "from": rng.choice(srcs)})
                    ncv += 1
            elif r < 0.45:
                b.ops.append({"op": "takecol", "t": 1, "n": rng.randint(0, ncols)})
                handles += 1
            elif r < 0.5 and any(x["n"] > 0 for x in b.rows) and any(not x["sep"] for x in b.rows):
                # a by-value copy of a cell (with its properties) added to some row
                cells = [(j + 1, c) for j, x in enumerate(b.rows) for c in range(1, x["n"] + 1)]
                a, c = rng.choice(cells)
                tgt = rng.choice([j + 1 for j, x in enumerate(b.rows) if not x["sep"]])
                b.ops.append({"op": "rowaddcell", "r": tgt, "from": {"kind": "cell", "r": a, "c": c}})
                b.rows[tgt - 1]["n"] += 1
                ncols = max([ncols] + [x["n"] for x in b.rows if x["tbl"]])
            else:
                owners = [{"kind": "table", "t": 1}] + [{"kind": "column", "t": 1, "n": c} for c in range(0, ncols + 1)]
                owners += [{"kind": "row", "r": j + 1} for j in range(len(b.rows))]
                owners += [{"kind": "cell", "r": j + 1, "c": c} for j, x in enumerate(b.rows) for c in range(1, x["n"] + 1)]
                owners += [{"kind": "hcell", "t": 1, "c": c} for c in range(1, hdr + 1)]
                owners += [{"kind": "cellvar", "v": v} for v in range(1, ncv + 1)] * 3
                owners += [{"kind": "handle", "h": h} for h in range(1, handles + 1)] * 3
                b.ops.append({"op": "setprop", "owner": rng.choice(owners), "k": rng.choice(keys), "v": rng.choice(VALS)})
        out.append(b.ops)
    return out


def gen_callbacks(seed, tier):
    """C13: random registrations (all owner kinds x times x targets, incl. unsupported and foreign)
    interleaved with building and render passes."""
    rng = random.Random(seed * 86028121 + 13)
    n = 300 if tier == "quick" else 6000
    out = []
    for i in range(n):
        # sometimes the table is created by a sub-package: the "table" owner is then a wrapper around the table
        b = GridBuilder(rng, via=[rng.choice(["core", "core", "csv", "texttable", "markdown", "html"])])
        ncols = 0
        hdr = 0
        ncb = 0
        ncv = 0
        if i % 10 == 0:
            # several registrations on one cell, a copy of the cell added to a row, then one more registration on the
            # original and one on the copy: every one of them fires on its own cell only
            k = rng.randint(1, 4)
            b.ops.append({"op": "rowitems", "t": 1, "items": [S("a")]})
            b.rows.append({"sep": False, "n": 1, "tbl": 1})
            tm = rng.choice(["render", "render", "pre"])
            for _ in range(k):
                b.ops.append({"op": "regcb", "t": 1, "owner": {"kind": "cell", "r": 1, "c": 1}, "time": "render", "target": "itself", "fails": 0})
            b.ops.append({"op": "rowaddcell", "r": 1, "from": {"kind": "cell", "r": 1, "c": 1}})
            b.rows[0]["n"] = 2
            b.ops.append({"op": "regcb", "t": 1, "owner": {"kind": "cell", "r": 1, "c": 1}, "time": "render", "target": "itself", "fails": 0})
            b.ops.append({"op": "regcb", "t": 1, "owner": {"kind": "cell", "r": 1, "c": 2}, "time": "render", "target": "itself", "fails": 0})
            b.ops.append({"op": "rendercbs", "t": 1})
            ncb = k + 2
            ncols = 2
        if i % 10 == 3:
            # a row that is in two tables: each table's render pass runs that table's callbacks (its own column and
            # table-level ones) on the row's cells, whichever table the row joined last; cells added late included
            b = GridBuilder(rng, ntables=2)
            k = rng.randint(1, 2)
            b.ops.append({"op": "newrow", "how": "new", "t": 1, "cap": 0})
            b.rows.append({"sep": False, "n": k, "tbl": 1})
            for _ in range(k):
                b.ops.append({"op": "rowadd", "r": 1, "item": S("a")})
            order = rng.choice([[1, 2], [2, 1], [1, 2, 1]])
            for t in order:
                b.ops.append({"op": "addrow", "t": t, "r": 1})
            if rng.random() < 0.5:
                b.ops.append({"op": "rowadd", "r": 1, "item": S("late")})
                k += 1
            regs = []
            for t in (1, 2):
                regs += [({"kind": "table", "t": t}, tm, "cell", t) for tm in ("pre", "render", "post")]
                for c in range(1, k + 1):
                    regs += [({"kind": "column", "t": t, "n": c}, tm, "cell", t) for tm in ("pre", "post")]
            regs += [({"kind": "row", "r": 1}, "pre", "cell", 1), ({"kind": "cell", "r": 1, "c": 1}, "render", "itself", 1)]
            for o, tm, tg, t in rng.sample(regs, rng.randint(2, 6)):
                b.ops.append({"op": "regcb", "t": t, "owner": o, "time": tm, "target": tg, "fails": rng.choice([0, 0, 1])})
            for t in rng.sample([1, 2], 2):
                b.ops.append({"op": "rendercbs", "t": t})
            out.append(b.ops)
            continue
        if i % 10 == 5:
            # one registration for every slot of the documented nesting order, on a small table with a header and a
            # separator, then two render passes: the whole order is observable in one log
            ncolsx = rng.randint(1, 2)
            b.ops.append({"op": "headers", "t": 1, "items": [S("h")] * ncolsx})
            b.ops.append({"op": "rowitems", "t": 1, "items": [S("a")] * ncolsx})
            b.rows.append({"sep": False, "n": ncolsx, "tbl": 1})
            b.ops.append({"op": "sep", "t": 1})
            b.rows.append({"sep": True, "n": 0, "tbl": 1})
            b.ops.append({"op": "rowitems", "t": 1, "items": [S("b")]})
            b.rows.append({"sep": False, "n": 1, "tbl": 1})
            regs = [({"kind": "table", "t": 1}, tm, tg) for tm, tg in [("pre", "itself"), ("post", "itself"), ("pre", "cell"), ("render", "cell"), ("post", "cell")]]
            for c in range(0, ncolsx + 1):
                regs += [({"kind": "column", "t": 1, "n": c}, tm, tg) for tm, tg in [("pre", "itself"), ("post", "itself"), ("pre", "cell"), ("post", "cell")]]
            for rr in (1, 3):
                regs += [({"kind": "row", "r": rr}, tm, tg) for tm, tg in [("pre", "itself"), ("post", "row"), ("pre", "cell"), ("post", "cell")]]
            regs += [({"kind": "cell", "r": 1, "c": 1}, "render", "itself"), ({"kind": "cell", "r": 3, "c": 1}, "render", "cell"),
                     ({"kind": "hcell", "t": 1, "c": 1}, "render", "itself")]
            rng.shuffle(regs)
            for o, tm, tg in regs:
                b.ops.append({"op": "regcb", "t": 1, "owner": o, "time": tm, "target": tg, "fails": 0})
            b.ops.append({"op": "rendercbs", "t": 1})
            b.ops.append({"op": "render", "pkg": rng.choice(["csv", "html", "text"]), "t": 1, "entry": "Render"})
            out.append(b.ops)
            continue
        for _ in range(rng.randint(4, 16)):
            r = rng.random()
            cells = [(j + 1, c) for j, x in enumerate(b.rows) for c in range(1, x["n"] + 1)]
            if r < 0.1 and cells and any(not x["sep"] for x in b.rows):
                # a by-value copy of an existing cell (callbacks and properties come along) added to some row
                a, c = rng.choice(cells)
                tgt = rng.choice([j + 1 for j, x in enumerate(b.rows) if not x["sep"]])
                b.ops.append({"op": "rowaddcell", "r": tgt, "from": {"kind": "cell", "r": a, "c": c}})
                b.rows[tgt - 1]["n"] += 1
                ncols = max([ncols] + [x["n"] for x in b.rows if x["tbl"]])
            elif r < 0.14 and cells:
                # a copy held by the caller (it carries the callbacks too), sometimes registered on, then added to a row
                a, c = rng.choice(cells)
                b.ops.append({"op": "copycell", "from": {"kind": "cell", "r": a, "c": c}})
                ncv += 1
                if rng.random() < 0.5 and ncb < 6:
                    b.ops.append({"op": "regcb", "t": 1, "owner": {"kind": "cellvar", "v": ncv}, "time": rng.choice(["render", "pre"]),
                                  "target": rng.choice(["itself", "cell", "row"]), "fails": 0})
                    ncb += 1
                tgts = [j + 1 for j, x in enumerate(b.rows) if not x["sep"]]
                if tgts:
                    tgt = rng.choice(tgts)
                    b.ops.append({"op": "rowaddcell", "r": tgt, "from": {"kind": "cellvar", "v": ncv}})
                    b.rows[tgt - 1]["n"] += 1
                    ncols = max([ncols] + [x["n"] for x in b.rows if x["tbl"]])
            elif r < 0.45:
                b.step(maxcells=3, items=lambda: S("a"))
                op = b.ops[-1]
                if op["op"] == "headers":
                    hdr = len(op["items"])
                    ncols = max(ncols, hdr)
                ncols = max([ncols] + [x["n"] for x in b.rows if x["tbl"]])
            elif r < 0.8 and ncb < 6:
                owners = [{"kind": "table", "t": 1}] * 3 + [{"kind": "foreign"}]
                owners += [{"kind": "column", "t": 1, "n": c} for c in range(0, ncols + 1)]
                owners += [{"kind": "row", "r": j + 1} for j in range(len(b.rows))]
                owners += [{"kind": "cell", "r": j + 1, "c": c} for j, x in enumerate(b.rows) for c in range(1, x["n"] + 1)]
                owners += [{"kind": "hcell", "t": 1, "c": c} for c in range(1, hdr + 1)]
                b.ops.append({"op": "regcb", "t": 1, "owner": rng.choice(owners), "time": rng.choice(["add", "pre", "render", "post"]),
                              "target": rng.choice(["itself", "cell", "row"]), "fails": 0})
                ncb += 1
            else:
                b.ops.append({"op": "rendercbs", "t": 1})
        out.append(b.ops)
    return out


DECOR_NAMES = ["ascii-simple", "none", "utf8-light", "utf8-light-curved", "utf8-heavy", "utf8-double"]
DECOR_FIELDS = ["Horizontal", "Vertical", "CrossPiece", "TopDown", "VBorder", "HOuter", "HRule", "VHeader",
                "VBodyBorder", "VBodyInner", "TopLeft", "TopRight", "BottomLeft", "BottomRight", "LeftBodyRule", "RightBodyRule",
                "HTopDown", "BTopDown", "BBottomUp", "HBCross", "HBLeft", "HBRight"]
GLYPHS = list("abcdefghijklmnopqrstuvwxyzABCDEFGHIJKLMNOPQRSTUVWXYZ0123456789*+=-|#@%") + ["é", "ß", "╳", "░", "·",
          "-\u0305", "e\u0301", "|\u0336", "x\u0302\u0303"]   # several runes, one display cell

TEXTS = ["a", "bb", "ccc", "", "x y", "line1\nline2", "ab\r\ncd", "x\r\ny\r\n", "cr\r", "tail\n", "\nlead", "a\n\nb", "日本", "é", "z​w",
         "\U0001F468‍\U0001F469‍\U0001F467", "\U0001F1E9\U0001F1EA", "wideＡ", "0", "-1.5", "three\nlines\nhere", " padded ",
         "ｗｉｄｅ\nnarrow", "\U0001F44D\U0001F3FD ok", "한글", "longer text in a cell", "\n", "\n\n",
         # texts for which the library's measure is not additive next to a space (a mark, modifier or prepended
         # character at the edge of the cell): the slot strings are still checked, the whole-line measure is not
         "\u05b0a", "\U0001F3FD", "a\u0600", "\uff9ea", "\ufe0fx"]


def rnd_text_item(rng, texts=TEXTS, sized=0.15):
    r = rng.random()
    if r < sized / 2:
        # a single-line item declaring its width
        return {"k": "obj", "caps": ["String", "Width"], "strv": rng.choice([t for t in texts if "\n" not in t and t != ""]),
                "w": rng.randint(0, 9)}
    if r < sized * 0.75:
        return {"k": "obj", "caps": ["String", "Height"], "strv": rng.choice(texts), "h": rng.randint(-1, 4)}
    if r < sized:
        # both overrides at once; also an empty text that still claims a width
        return {"k": "obj", "caps": ["String", "Height", "Width"], "strv": rng.choice([t for t in texts if "\n" not in t]),
                "h": rng.randint(0, 3), "w": rng.randint(0, 9)}
    if r < sized + 0.05:
        return {"k": "nil"}
    if r < sized + 0.1:
        return {"k": "other", "which": rng.choice(["int42", "float", "true", "named", "strhidden", "error"])}
    if r < sized + 0.13:
        if sized > 0 and rng.random() < 0.5:
            # a Cell value holding an item that declares its width or height (the cell reports what the item declares)
            caps = rng.choice([["String", "Width"], ["String", "Height"]])
            return {"k": "cell", "inner": {"k": "obj", "caps": caps, "strv": rng.choice([t for t in texts if "\n" not in t and t != ""]),
                                           "h": rng.randint(0, 3), "w": rng.randint(0, 7)}}
        return {"k": rng.choice(["cell", "cellptr"]), "inner": S(rng.choice(texts))}
    return S(rng.choice(texts))


def build_table(rng, b, maxcols, maxrows, item, hdr_p=0.7, sep_p=0.15, via=None):
    """Appends a random table (header, rows, separators, ragged/empty rows, late cells) to builder b; returns ncols."""
    ncols = 0
    t = 1
    if rng.random() < hdr_p:
        n = rng.randint(0, maxcols)
        b.ops.append({"op": "headers", "t": t, "items": [item() for _ in range(n)]})
        ncols = max(ncols, n)
    for _ in range(rng.randint(0, maxrows)):
        r = rng.random()
        if r < sep_p:
            b.ops.append({"op": "sep", "t": t})
            b.rows.append({"sep": True, "n": 0, "tbl": t})
        elif r < sep_p + 0.1:
            # a row built by hand, possibly extended after it joined the table
            b.ops.append({"op": "newrow", "how": rng.choice(["sizedfor", "new", "cap"]), "t": t, "cap": rng.randint(0, 3)})
            b.rows.append({"sep": False, "n": 0, "tbl": 0})
            rid = len(b.rows)
            n = rng.randint(0, maxcols)
            k = rng.randint(0, n)
            for _ in range(k):
                b.ops.append({"op": "rowadd", "r": rid, "item": item()})
            b.ops.append({"op": "addrow", "t": t, "r": rid})
            for _ in range(n - k):
                b.ops.append({"op": "rowadd", "r": rid, "item": item()})
            b.rows[rid - 1].update(n=n, tbl=t)
            ncols = max(ncols, n)
        else:
            n = rng.randint(0, maxcols)
            b.ops.append({"op": "rowitems", "t": t, "items": [item() for _ in range(n)]})
            b.rows.append({"sep": False, "n": n, "tbl": t})
            ncols = max(ncols, n)
    return ncols


def rnd_decor_op(rng, w):
    r = rng.random()
    if r < 0.6:
        return {"op": "decor", "w": w, "name": rng.choice(DECOR_NAMES)}
    fields = rng.sample(DECOR_FIELDS, rng.randint(0, len(DECOR_FIELDS)))
    glyphs = rng.sample(GLYPHS, len(fields))
    return {"op": "decor", "w": w, "custom": dict(zip(fields, glyphs))}


def cell_refs(ops):
    """Replays the id allocation of a scenario: [(reference, item descriptor)] of every cell and header cell."""
    rows = []     # per row object: list of items (None for separators)
    hdr = {}
    for op in ops:
        o = op["op"]
        if o == "headers":
            hdr[op["t"]] = list(op["items"])
        elif o == "rowitems":
            rows.append(list(op["items"]))
        elif o == "sep":
            rows.append(None)
        elif o in ("appendrow", "newrow"):
            rows.append([])
        elif o == "rowadd" and rows[op["r"] - 1] is not None:
            rows[op["r"] - 1].append(op["item"])
    out = []
    for t, items in hdr.items():
        out += [({"kind": "hcell", "t": t, "c": c + 1}, it) for c, it in enumerate(items)]
    for r, items in enumerate(rows):
        if items:
            out += [({"kind": "cell", "r": r + 1, "c": c + 1}, it) for c, it in enumerate(items)]
    return out


def mutate_ops(rng, ops, texts, p=0.35):
    """Items mutated behind the cells' backs (with and without Update) before rendering: the renderers must
    show the text the cell last read (C01: 'the same text as shown by every renderer')."""
    out = []
    objs = [(ref, it) for ref, it in cell_refs(ops) if it.get("k") == "obj"]
    if objs and rng.random() < p:
        for ref, it in rng.sample(objs, min(len(objs), rng.randint(1, 3))):
            ni = {"k": "obj", "caps": list(it["caps"]), "strv": rng.choice(texts), "gov": rng.choice(texts), "errv": rng.choice(texts),
                  "h": it.get("h", 0), "w": it.get("w", 0)}
            if "Width" in it["caps"]:
                ni["strv"] = rng.choice([t for t in texts if "\n" not in t and t != ""])
            out.append({"op": "mutate", "cell": ref, "item": ni})
            if rng.random() < 0.5:
                out.append({"op": "update", "cell": ref})
    return out


def gen_text(seed, tier, sized=0.0, aligns=0.3):
    """C03/C04: random tables (<= 6 x 8, ragged, empty rows, header narrower/wider than body) under all
    registered and random custom decorations, random alignment settings."""
    rng = random.Random(seed * 67867967 + 3 + int(sized * 100))
    n = 400 if tier == "quick" else 10000
    out = []
    for i in range(n):
        b = GridBuilder(rng)
        if i % 8 == 3:
            # the same wrapper rendered again after the widest cell of a column SHRANK (no header cell above it, or a
            # header shorter than the table is wide): nothing of the first layout may survive into the second
            nc = rng.randint(1, 3)
            if rng.random() < 0.4:
                b.ops.append({"op": "headers", "t": 1, "items": [S("h")] * rng.randint(0, nc - 1)})
            wide = rng.randint(1, nc)
            for r in range(rng.randint(1, 3)):
                items = [S(rng.choice(["a", "bb", ""])) for _ in range(nc)]
                if r == 0:
                    items[wide - 1] = {"k": "obj", "caps": ["String"], "strv": "the widest cell of this column"}
                b.ops.append({"op": "rowitems", "t": 1, "items": items})
                b.rows.append({"sep": False, "n": nc, "tbl": 1})
            b.ops.append({"op": "wrap", "kind": "text", "over": {"t": 1}})
            if rng.random() < 0.5:
                b.ops.append(rnd_decor_op(rng, 1))
            b.ops.append({"op": "render", "w": 1, "entry": rng.choice(["Render", "RenderTo"])})
            ref = {"kind": "cell", "r": 1, "c": wide}
            b.ops.append({"op": "mutate", "cell": ref, "item": {"k": "obj", "caps": ["String"], "strv": rng.choice(["x", "", "ab"])}})
            b.ops.append({"op": "update", "cell": ref})
            b.ops.append({"op": "render", "w": 1, "entry": rng.choice(["Render", "RenderTo"])})
            out.append(b.ops)
            continue
        ncols = build_table(rng, b, rng.randint(1, 6), rng.randint(0, 8), lambda: rnd_text_item(rng, sized=sized))
        for c in range(0, ncols + 1):
            if rng.random() < aligns:
                b.ops.append({"op": "setprop", "owner": {"kind": "column", "t": 1, "n": c}, "k": "k_align", "v": rng.choice(["vL", "vR", "vC"])})
        b.ops += mutate_ops(rng, b.ops, TEXTS)
        b.ops.append({"op": "wrap", "kind": "text", "over": {"t": 1}})
        for _ in range(rng.randint(1, 3)):
            if rng.random() < 0.8:
                b.ops.append(rnd_decor_op(rng, 1))
            b.ops.append({"op": "render", "w": 1, "entry": rng.choice(["Render", "RenderTo"])})
            # items change between renders (same-size and different-size texts), with Update: the next render follows
            more = mutate_ops(rng, [o for o in b.ops if o["op"] not in ("mutate", "update")], TEXTS + ["ab", "cd", "xy"], p=0.5)
            if more:
                b.ops += more
                b.ops.append({"op": "render", "w": 1, "entry": "Render"})
            # the renderer's public helpers (beyond the listed properties): the measured lines of one row
            rows = [k + 1 for k, r in enumerate(b.rows) if r["tbl"] == 1]
            if rows and rng.random() < 0.5:
                b.ops.append({"op": "rendercbs", "t": 1})
                b.ops.append({"op": "rowlines", "w": 1, "r": rng.choice(rows)})
        if rng.random() < 0.5:
            # the emitter object by itself: rule lines and one content line for given widths
            n = rng.randint(0, 4)
            d = rnd_decor_op(rng, 1)
            cells = []
            for _ in range(n):
                t = rng.choice(TEXTS + ["", "ab", "日本"]).split("\n")[0]
                cells.append([t, rng.choice([len(t), len(t), 0, 1, 3, -1])])
            eop = {"op": "emitter", "widths": [rng.randint(0, 7) for _ in range(n)], "cells": cells,
                   "aligns": [rng.choice(["left", "right", "centre"]) for _ in range(n)]}
            eop.update({k: v for k, v in d.items() if k in ("name", "custom")})
            b.ops.append(eop)
        if rng.random() < 0.5:
            txt = rng.choice(TEXTS + ["", "ab", "日本"]).split("\n")[0]
            b.ops.append({"op": "within", "s": txt, "w": rng.choice([-1, 0, 1, 2, 5, len(txt)]), "avail": rng.randint(0, 9),
                          "align": rng.choice(["none", "left", "right", "centre"])})
        out.append(b.ops)
    return out


def gen_text_sized(seed, tier):
    return gen_text(seed, tier, sized=0.35, aligns=0.6)


def latin1_str(bs):
    return "".join(chr(b) for b in bs)


def gen_csv(seed, tier):
    """C05: tables whose texts are arbitrary byte strings (Latin-1 transport)."""
    rng = random.Random(seed * 2038074743 + 5)
    n = 400 if tier == "quick" else 10000
    specials = [0x22, 0x2c, 0x0d, 0x0a, 0x00, 0xff, 0xc3, 0xa9, 0x20, 0x27, 0x5c, 0x3b, 0x09]

    def bstr():
        k = rng.choice([0, 1, 1, 2, 3, 5, 9])
        return latin1_str(rng.choice(specials) if rng.random() < 0.6 else rng.randrange(256) for _ in range(k))

    def item():
        r = rng.random()
        if r < 0.8:
            return S(bstr())
        if r < 0.88:
            return {"k": "obj", "caps": ["String"], "strv": bstr()}
        if r < 0.92:
            return {"k": "obj", "caps": rng.choice([[], ["Error"], ["GoString"]]), "strv": bstr(), "gov": bstr(), "errv": bstr()}
        if r < 0.95:
            return {"k": "rune", "s": rng.choice(["q", "é", "日"])}
        return {"k": "nil"}
    out = []
    for i in range(n):
        b = GridBuilder(rng)
        build_table(rng, b, rng.randint(0, 5), rng.randint(0, 6), item)
        b.ops.append({"op": "wrap", "kind": "csv", "over": {"t": 1}})
        b.ops.append({"op": "render", "w": 1, "entry": rng.choice(["Render", "RenderTo"])})
        if rng.random() < 0.3:
            b.ops.append({"op": "render", "pkg": "csv", "t": 1, "entry": "Render"})
        out.append(b.ops)
    return out


HOSTILE_HTML = ["<", ">", "&", "\"", "'", "&amp;", "&lt", "&#60;", "</td>", "<script>alert(1)</script>", "</script>", "<style>", "<!--",
                "-->", "]]>", "`", "=", "a b", "javascript:alert(1)", "plain", "日本", "<td>", "\" onclick=\"x", "' onmouseover='x",
                "&nbsp;", "&#x3c;b&#x3e;", "a<b>c", "{{.}}", "x&y", "\t", "<img src=x onerror=y>", "</table>", "", "line\nbreak", " lead", "trail ", "\r"]


def gen_html(seed, tier):
    """C06: markup-hostile strings in every context (th, td, caption, id, class, row class)."""
    rng = random.Random(seed * 694847539 + 6)
    n = 400 if tier == "quick" else 10000
    out = []

    def hs():
        return "".join(rng.choice(HOSTILE_HTML) for _ in range(rng.choice([1, 1, 2, 3])))
    for i in range(n):
        b = GridBuilder(rng)
        build_table(rng, b, rng.randint(0, 4), rng.randint(0, 6), lambda: S(hs()) if rng.random() < 0.9 else rnd_item(rng, HOSTILE_HTML))
        att = [j + 1 for j, x in enumerate(b.rows) if x["tbl"] and not x["sep"]]
        if att and rng.random() < 0.2:
            # the same row object listed twice: row numbers are positions in the table, not what the row remembers
            r0 = rng.choice(att)
            b.ops.append({"op": "addrow", "t": 1, "r": r0})
            if rng.random() < 0.5:
                b.ops.append({"op": "rowitems", "t": 1, "items": [S(hs())]})
                b.rows.append({"sep": False, "n": 1, "tbl": 1})
        b.ops.append({"op": "wrap", "kind": "html", "over": {"t": 1}})
        if rng.random() < 0.8:
            b.ops.append({"op": "htmlopts", "w": 1, "id": hs() if rng.random() < 0.6 else "", "class": hs() if rng.random() < 0.6 else "",
                          "caption": hs() if rng.random() < 0.6 else "", "gen": 1 if rng.random() < 0.6 else 0,
                          "genvals": [hs() for _ in range(rng.randint(0, 3))]})
        for _ in range(rng.randint(1, 3)):
            b.ops.append({"op": "render", "w": 1, "entry": rng.choice(["Render", "RenderTo"])})
            if rng.random() < 0.5:
                # the wrapper's options change between renders (generator set / replaced, strings changed)
                b.ops.append({"op": "htmlopts", "w": 1, "id": hs() if rng.random() < 0.5 else "", "class": hs() if rng.random() < 0.5 else "",
                              "caption": hs() if rng.random() < 0.5 else "", "gen": 1 if rng.random() < 0.75 else 0,
                              "genvals": [hs() for _ in range(rng.randint(0, 3))]})
                b.ops.append({"op": "render", "w": 1, "entry": rng.choice(["Render", "RenderTo"])})
        out.append(b.ops)
    return out


JSON_TEXTS = ["\"", "\\", "\\\"", "\b\f", "\t", "\x01", "<>&", " ", " ", "\U0001F600", "key", "a b", "é", "{\"a\":1}", "[1]",
              "null", "true", "12", "very long key " * 4, "/", "\x7f", "", "k1", "k2", "k3", "line\nbreak"]
JSON_OTHERS = ["int42", "int0", "negint", "int64big", "uint8", "float", "floatexp", "true", "false", "named", "namedempty", "bytes",
               "struct", "structptr", "hidden", "strhidden", "strhiddenempty", "map", "emptymap", "slice", "emptyslice", "marshaler",
               "nilptr", "error", "chan", "nan"]


def gen_json(seed, tier):
    """C07: headers of arbitrary text (sometimes empty / duplicate / too few), items of every JSON kind,
    separators in every position, every skipable assignment."""
    rng = random.Random(seed * 256203221 + 7)
    n = 400 if tier == "quick" else 10000
    out = []
    for i in range(n):
        b = GridBuilder(rng)
        ncols = rng.randint(0, 4)
        good = rng.random() < 0.75
        if good and ncols:
            hdr = rng.sample([t for t in JSON_TEXTS if t != ""], ncols)
        else:
            hdr = [rng.choice(JSON_TEXTS) for _ in range(rng.randint(0, ncols + 1))]
        if good or rng.random() < 0.7:
            b.ops.append({"op": "headers", "t": 1, "items": [S(h) for h in hdr]})

        def item():
            r = rng.random()
            if r < 0.35:
                return S(rng.choice(JSON_TEXTS))
            if r < 0.7:
                w = rng.choice(JSON_OTHERS)
                if w in ("chan", "nan") and rng.random() < 0.7:
                    w = "int42"
                return {"k": "other", "which": w}
            if r < 0.8:
                return {"k": "nil"}
            if r < 0.9:
                return rnd_obj(rng, JSON_TEXTS)
            return {"k": "cell", "inner": S(rng.choice(JSON_TEXTS))}
        for _ in range(rng.randint(0, 6)):
            if rng.random() < 0.3:
                b.ops.append({"op": "sep", "t": 1})
                b.rows.append({"sep": True, "n": 0, "tbl": 1})
            else:
                k = rng.randint(0, ncols) if good else rng.randint(0, ncols + 1)
                b.ops.append({"op": "rowitems", "t": 1, "items": [item() for _ in range(k)]})
                b.rows.append({"sep": False, "n": k, "tbl": 1})
        objs = [(ref, it) for ref, it in cell_refs(b.ops) if it.get("k") == "obj" and ref["kind"] == "cell"]
        if objs and rng.random() < 0.3:
            # a by-value copy of a cell holds the same item object: a mutation shows through both in the JSON values
            ref, it = rng.choice(objs)
            tgt = ref["r"]
            if b.rows[tgt - 1]["n"] < max(ncols, 1):
                b.ops.append({"op": "rowaddcell", "r": tgt, "from": ref})
                b.rows[tgt - 1]["n"] += 1
            b.ops.append({"op": "mutate", "cell": ref, "item": rnd_obj(rng, JSON_TEXTS, caps=list(it["caps"]))})
        maxc = max([len(hdr) if b.ops and b.ops[1:2] and b.ops[1].get("op") == "headers" else 0] + [r["n"] for r in b.rows] + [0])
        for c in range(0, maxc + 1):
            if rng.random() < 0.3:
                b.ops.append({"op": "setprop", "owner": {"kind": "column", "t": 1, "n": c}, "k": "k_skip",
                              "v": rng.choice(["vtrue", "vtrue", "vfalse", "vbad" if rng.random() < 0.3 else "vtrue"])})
        b.ops.append({"op": "wrap", "kind": "json", "over": {"t": 1}})
        b.ops.append({"op": "render", "w": 1, "entry": rng.choice(["Render", "RenderTo"])})
        if rng.random() < 0.3:
            # the same wrapper again after the header was replaced (same width; sometimes now empty / duplicate)
            nh = [rng.choice(JSON_TEXTS) for _ in hdr] if rng.random() < 0.4 else rng.sample([t for t in JSON_TEXTS if t != ""], len(hdr))
            b.ops.append({"op": "headers", "t": 1, "items": [S(h) for h in nh]})
            b.ops.append({"op": "render", "w": 1, "entry": "Render"})
        out.append(b.ops)
    return out


MD_TEXTS = ["|", "\\|", "\\", "a\\", "<br>", "&#x7c;", "&amp;", "`code`", "*em*", "_", "日本", "a|b|c", "||", "<b>x</b>", "\"q\"", "'s'", "&",
            "&lt;", "  spaced  ", "[l](u)", "![i](u)", "---", ":--:", "#", "plain text", "\t", "", "two\nlines", "\n", "trail\n", "ｗｉｄｅ", "x"]


def gen_md(seed, tier):
    """C08: markdown-hostile texts (no CR), ragged and zero-cell rows and headers, every alignment assignment."""
    rng = random.Random(seed * 179424673 + 8)
    n = 400 if tier == "quick" else 10000
    out = []
    for i in range(n):
        b = GridBuilder(rng)
        ncols = build_table(rng, b, rng.randint(0, 5), rng.randint(0, 6),
                            lambda: S("".join(rng.choice(MD_TEXTS) for _ in range(rng.choice([1, 1, 2])))), hdr_p=0.9)
        for c in range(0, ncols + 1):
            if rng.random() < 0.4:
                b.ops.append({"op": "setprop", "owner": {"kind": "column", "t": 1, "n": c}, "k": "k_align", "v": rng.choice(["vL", "vR", "vC"])})
        b.ops.append({"op": "wrap", "kind": "md", "over": {"t": 1}})
        b.ops.append({"op": "render", "w": 1, "entry": rng.choice(["Render", "RenderTo"])})
        out.append(b.ops)
    return out


def gen_total(seed, tier):
    """C09: random longer build sequences with size-lying items; every renderer/style at the end."""
    rng = random.Random(seed * 373587883 + 9)
    n = 200 if tier == "quick" else 5000
    out = []

    def item():
        r = rng.random()
        if r < 0.3:
            return rnd_obj(rng, TEXTS)
        if r < 0.36:
            # numbers one of the renderers cannot encode (JSON has no NaN / infinity): that renderer must fail
            # cleanly -- an error and no text -- and the others must render
            return {"k": "other", "which": rng.choice(["nan", "inf", "float32", "int42"])}
        return rnd_text_item(rng, sized=0.3)
    for i in range(n):
        if i % 10 == 3:
            # a row shared by several tables (joined in any order, some of them more than once: A, B, A), extended
            # after it joined: every table that holds it must still render in every format -- a table whose column
            # count was not brought up to the late cells is where a renderer indexes past its columns
            b = GridBuilder(rng, ntables=rng.randint(2, 3))
            for t in range(1, b.ntables + 1):
                if rng.random() < 0.5:
                    b.ops.append({"op": "headers", "t": t, "items": [item() for _ in range(rng.randint(0, 3))]})
                if rng.random() < 0.5:
                    nn = rng.randint(0, 3)
                    b.ops.append({"op": "rowitems", "t": t, "items": [item() for _ in range(nn)]})
                    b.rows.append({"sep": False, "n": nn, "tbl": t})
            shared = len(b.rows) + 1
            b.ops.append({"op": "newrow", "how": rng.choice(["sizedfor", "new", "cap"]), "t": 1, "cap": rng.randint(0, 3)})
            b.rows.append({"sep": False, "n": 0, "tbl": 0})
            for _ in range(rng.randint(0, 2)):
                b.ops.append({"op": "rowadd", "r": shared, "item": item()})
            for _ in range(rng.randint(2, 5)):
                b.ops.append({"op": "addrow", "t": rng.randint(1, b.ntables), "r": shared})
            for _ in range(rng.randint(1, 3)):
                b.ops.append({"op": "rowadd", "r": shared, "item": item()})
            for t in range(1, b.ntables + 1):
                b.ops.append({"op": "renderall", "t": t})
            out.append(b.ops)
            continue
        b = GridBuilder(rng)
        for _ in range(rng.randint(0, 30)):
            b.step(maxcells=rng.choice([0, 1, 2, 4, 11]), items=item)
        if i % 50 == 7:
            # the extreme of a declared size that disagrees with the text: the largest int (known finding D20)
            big = rnd_obj(rng, TEXTS, caps=["String", rng.choice(["Height", "Width"])])
            big["hmax" if "Height" in big["caps"] else "wmax"] = 1
            b.ops.append({"op": "rowitems", "t": 1, "items": [big, {"k": "str", "s": "y"}]})
        ncols = max([0] + [x["n"] for x in b.rows if x["tbl"]] + [len(o["items"]) for o in b.ops if o["op"] == "headers"])
        for c in range(0, ncols + 1):
            if rng.random() < 0.3:
                b.ops.append({"op": "setprop", "owner": {"kind": "column", "t": 1, "n": c}, "k": "k_align", "v": rng.choice(["vL", "vR", "vC"])})
            if rng.random() < 0.1:
                b.ops.append({"op": "setprop", "owner": {"kind": "column", "t": 1, "n": c}, "k": "k_skip", "v": rng.choice(["vtrue", "vfalse", "vbad"])})
        b.ops.append({"op": "renderall", "t": 1})
        out.append(b.ops)
    return out


CREATORS = [("core", None), ("csv", None), ("html", None), ("json", None), ("markdown", None), ("texttable", None),
            ("auto", "csv"), ("auto", "HTML"), ("auto", "json.x"), ("auto", "markdown"), ("auto", "texttable"),
            ("auto", "texttable.ascii-simple"), ("auto", "utf8-light"), ("auto", "none")]
AUTO_STYLES = ["csv", "CSV", "csv.foo", "html", "Html.a.b", "json", "markdown", "MARKDOWN", "texttable", "texttable.utf8-double",
               "ascii-simple", "utf8-light-curved", "none", "texttable.none", "utf8-heavy"]
WRAP_KINDS = ["text", "csv", "html", "json", "md"]


def render_ops(rng, b, nwr, count, formats=WRAP_KINDS):
    """Random render calls: through wrappers' methods, package functions (on the table or a wrapper), auto."""
    for _ in range(count):
        r = rng.random()
        if r < 0.45 and nwr:
            b.ops.append({"op": "render", "w": rng.randint(1, nwr), "entry": rng.choice(["Render", "RenderTo"])})
        elif r < 0.75:
            op = {"op": "render", "pkg": rng.choice(formats), "entry": rng.choice(["Render", "RenderTo"])}
            if nwr and rng.random() < 0.5:
                op["ow"] = rng.randint(1, nwr)
            else:
                op["t"] = 1
            b.ops.append(op)
        else:
            op = {"op": "render", "auto": rng.choice(AUTO_STYLES), "entry": rng.choice(["Render", "RenderTo"])}
            if nwr and rng.random() < 0.5:
                op["ow"] = rng.randint(1, nwr)
            else:
                op["t"] = 1
            b.ops.append(op)


def gen_paths(seed, tier):
    """C10: one random content built through a random creator, wrapped by random nestings, rendered every way."""
    rng = random.Random(seed * 982451653 + 10)
    n = 300 if tier == "quick" else 8000
    out = []
    for i in range(n):
        via, style = rng.choice(CREATORS)
        b = GridBuilder(rng, ntables=0)
        mine = None
        if rng.random() < 0.15:
            # an application-registered decoration, used through auto by its (case-sensitive, possibly dotted) name
            mine = rng.choice(["Corp-Box", "mine", "a.b", "Mixed.Case"])
            fields = rng.sample(DECOR_FIELDS, rng.randint(2, 6))
            b.ops.append({"op": "regdecor", "name": mine, "custom": dict(zip(fields, rng.sample(GLYPHS, len(fields))))})
            if rng.random() < 0.5:
                via, style = "auto", rng.choice([mine, "texttable." + mine])
        b.new_table(via, style)
        nwr = 0 if via == "core" else 1
        ncols = build_table(rng, b, rng.randint(1, 4), rng.randint(0, 5), lambda: rnd_text_item(rng, sized=0.1))
        if rng.random() < 0.4:
            for c in range(0, ncols + 1):
                if rng.random() < 0.4:
                    b.ops.append({"op": "setprop", "owner": {"kind": "column", "t": 1, "n": c}, "k": "k_align", "v": rng.choice(["vL", "vR", "vC"])})
        # items changed after they were added (with Update): every path must show the new text
        b.ops += mutate_ops(rng, b.ops, TEXTS, p=0.3)
        if i % 24 == 5:
            # a last row with a number JSON cannot encode: every JSON path fails part-way through its output (the same
            # way on every path, with no text), the other formats render
            b.ops.append({"op": "rowitems", "t": 1, "items": [S("last"), {"k": "other", "which": rng.choice(["nan", "inf"])}]})
            b.rows.append({"sep": False, "n": 2, "tbl": 1})
        poison = i % 24 == 17
        if rng.random() < 0.25:
            # a user callback (sometimes failing) registered before any further wrapper exists: it must not
            # change what is rendered (the reference path has no such callback)
            b.ops.append({"op": "regcb", "t": 1, "owner": {"kind": "table", "t": 1}, "time": rng.choice(["render", "pre", "post"]),
                          "target": "cell", "fails": 1 if rng.random() < 0.7 else 0})
        if rng.random() < 0.3:
            # the table in hand (a wrapper, when a sub-package created it) accepts every registration the core table
            # accepts: each supported (time, target) of a table owner
            tm, tg = rng.choice([("add", "row"), ("add", "cell"), ("pre", "itself"), ("post", "itself"), ("pre", "cell"), ("post", "cell")])
            b.ops.append({"op": "regcb", "t": 1, "owner": {"kind": "table", "t": 1}, "time": tm, "target": tg, "fails": 0})
        for _ in range(rng.randint(0, 3)):
            over = {"w": rng.randint(1, nwr)} if nwr and rng.random() < 0.7 else {"t": 1}
            if rng.random() < 0.2:
                b.ops.append({"op": "wrap", "kind": "auto", "style": rng.choice(AUTO_STYLES), "over": over})
            else:
                k = rng.choice(WRAP_KINDS)
                b.ops.append({"op": "wrap", "kind": k, "over": over})
                if k == "text" and rng.random() < 0.5:
                    # a non-default decoration on this text wrapper (matters when it is wrapped again)
                    b.ops.append(rnd_decor_op(rng, nwr + 1))
            nwr += 1
        render_ops(rng, b, nwr, rng.randint(1, 4))
        if poison:
            # a JSON render of ANOTHER table that fails part-way (a number JSON cannot encode in its last row), then JSON
            # renders of this table by every route: whatever the failed attempt leaves behind in state shared between
            # calls (a pooled buffer, say) must not show in them, and Render must still equal what RenderTo writes
            t2 = b.new_table("core")
            b.ops.append({"op": "headers", "t": t2, "items": [S("h1"), S("h2")]})
            b.ops.append({"op": "rowitems", "t": t2, "items": [S("first"), S("row")]})
            b.rows.append({"sep": False, "n": 2, "tbl": t2})
            b.ops.append({"op": "rowitems", "t": t2, "items": [S("last"), {"k": "other", "which": rng.choice(["nan", "inf"])}]})
            b.rows.append({"sep": False, "n": 2, "tbl": t2})
            # (a third table that JSON can certainly render: the random one may lack the header JSON needs)
            t3 = b.new_table("core")
            b.ops.append({"op": "headers", "t": t3, "items": [S("k"), S("v")]})
            b.ops.append({"op": "rowitems", "t": t3, "items": [S("one"), rnd_text_item(rng, sized=0)]})
            b.rows.append({"sep": False, "n": 2, "tbl": t3})
            b.ops.append({"op": "render", "pkg": "json", "t": t2, "entry": "Render"})
            for t in (t3, 1):
                for e in ("Render", "RenderTo", "Render"):
                    b.ops.append({"op": "render", "pkg": "json", "t": t, "entry": e})
                b.ops.append({"op": "render", "auto": "json", "t": t, "entry": "Render"})
            b.ops.append({"op": "render", "pkg": "json", "t": t2, "entry": "Render"})
            render_ops(rng, b, nwr, rng.randint(1, 3))
        hops = [o for o in b.ops if o["op"] == "headers" and o["t"] == 1]
        if hops and rng.random() < 0.35:
            # the header is replaced (same number of cells) after wrappers have rendered: every path, old wrappers
            # included, must now show the new header
            # (every wrapper renders before and after, so that whatever one of them keeps from its first render shows)
            for w in range(1, nwr + 1):
                b.ops.append({"op": "render", "w": w, "entry": "Render"})
            names = rng.sample(["new", "hdr", "k", "x y", "n\nl", "q", "zz", "0", "é"], min(9, len(hops[-1]["items"])))
            b.ops.append({"op": "headers", "t": 1, "items": [S(names[j % len(names)] + ("" if j < len(names) else str(j))) for j in range(len(hops[-1]["items"]))]})
            for w in range(1, nwr + 1):
                b.ops.append({"op": "render", "w": w, "entry": rng.choice(["Render", "RenderTo"])})
            render_ops(rng, b, nwr, rng.randint(1, 3))
        if mine:
            b.ops.append({"op": "render", "auto": rng.choice([mine, "texttable." + mine, "TextTable." + mine]), "t": 1, "entry": "Render"})
        out.append(b.ops)
    return out


def gen_repeat(seed, tier):
    """C14: random build, then 3-12 renders in random order of formats, decorations and wrappers
    (the same wrapper again, a fresh one, one nested around another)."""
    rng = random.Random(seed * 472882027 + 14)
    n = 200 if tier == "quick" else 5000
    out = []
    for i in range(n):
        b = GridBuilder(rng)
        ncols = build_table(rng, b, rng.randint(1, 4), rng.randint(0, 5), lambda: rnd_text_item(rng, sized=0.1))
        for c in range(0, ncols + 1):
            if rng.random() < 0.25:
                b.ops.append({"op": "setprop", "owner": {"kind": "column", "t": 1, "n": c}, "k": rng.choice(["k_align", "k_int", "k_str"]),
                              "v": rng.choice(["vL", "vR", "vC"])})
        if rng.random() < 0.3:
            b.ops.append({"op": "tblerr", "t": 1, "e": "E1"})
        # items mutated behind the cells' backs, some without Update: no render may re-read them
        b.ops += mutate_ops(rng, b.ops, TEXTS, p=0.4)
        nwr = 0
        text_wr = []
        if rng.random() < 0.35:
            # one text wrapper switched between decorations by name and back: X, Y, X must give X's first bytes again
            b.ops.append({"op": "wrap", "kind": "text", "over": {"t": 1}})
            nwr += 1
            text_wr.append(nwr)
            x, y = rng.sample(DECOR_NAMES, 2)
            for nm in [x, y, x, rng.choice(DECOR_NAMES), y]:
                b.ops.append({"op": "decor", "w": nwr, "name": nm})
                b.ops.append({"op": "render", "w": nwr, "entry": rng.choice(["Render", "RenderTo"])})
        for _ in range(rng.randint(3, 12)):
            r = rng.random()
            if r < 0.35 or nwr == 0:
                over = {"w": rng.randint(1, nwr)} if nwr and rng.random() < 0.4 else {"t": 1}
                k = rng.choice(WRAP_KINDS)
                b.ops.append({"op": "wrap", "kind": k, "over": over})
                nwr += 1
                if k == "text":
                    text_wr.append(nwr)
            elif r < 0.5 and text_wr:
                b.ops.append(rnd_decor_op(rng, rng.choice(text_wr)))
            elif r < 0.58 and text_wr:
                # a render that is refused (unknown decoration name, or no decoration at all) is a render too:
                # it must leave the table, its error list included, as it was
                w = rng.choice(text_wr)
                b.ops.append({"op": "decor", "w": w, "name": "no-such-decoration"} if rng.random() < 0.6 else {"op": "decor", "w": w, "custom": {}})
                b.ops.append({"op": "render", "w": w, "entry": rng.choice(["Render", "RenderTo"])})
            elif r < 0.62:
                b.ops.append({"op": "render", "auto": rng.choice(["bogus", "texttable.bogus"]), "t": 1, "entry": rng.choice(["Render", "RenderTo"])})
            elif r < 0.70 and nwr:
                # renders into writers that fail (every Write call, three ways) are renders too: whatever a wrapper
                # keeps between calls, the next render gives the first bytes again
                w = rng.randint(1, nwr)
                b.ops.append({"op": "render", "w": w, "entry": "Render"})
                b.ops.append({"op": "faultsweep", "w": w, "entry": "RenderTo"})
                b.ops.append({"op": "render", "w": w, "entry": rng.choice(["Render", "RenderTo"])})
            render_ops(rng, b, nwr, 1)
        out.append(b.ops)
    return out


def gen_faults(seed, tier):
    """C15: random tables, every renderer (wrapper methods, package functions, auto), full fault sweep."""
    rng = random.Random(seed * 122949829 + 15)
    n = 150 if tier == "quick" else 4000
    out = []
    for i in range(n):
        b = GridBuilder(rng)
        hdr_p = 0.9
        build_table(rng, b, rng.randint(1, 4), rng.randint(0, 5), lambda: rnd_text_item(rng, sized=0.1), hdr_p=hdr_p)
        kind = rng.choice(WRAP_KINDS)
        r = rng.random()
        if r < 0.6:
            b.ops.append({"op": "wrap", "kind": kind, "over": {"t": 1}})
            if kind == "text" and rng.random() < 0.6:
                b.ops.append(rnd_decor_op(rng, 1))
            if kind == "html" and rng.random() < 0.6:
                b.ops.append({"op": "htmlopts", "w": 1, "id": "i", "class": "c", "caption": "cap", "gen": 1, "genvals": ["r0", "r1"]})
            b.ops.append({"op": "faultsweep", "w": 1})
        elif r < 0.8:
            b.ops.append({"op": "faultsweep", "pkg": kind, "t": 1})
        else:
            b.ops.append({"op": "faultsweep", "auto": rng.choice(AUTO_STYLES), "t": 1})
        out.append(b.ops)
    return out


def gen_failclosed(seed, tier):
    """C17 (sequential clause): decorations selected by name -- registered (also overwritten), built-in,
    unknown, case variants, empty -- then rendered; unknown names must fail closed."""
    rng = random.Random(seed * 141650939 + 17)
    n = 150 if tier == "quick" else 3000
    out = []
    for i in range(n):
        b = GridBuilder(rng)
        build_table(rng, b, rng.randint(1, 3), rng.randint(0, 3), lambda: S(rng.choice(["a", "bb", "a\nb", ""])))
        mine = []
        for _ in range(rng.randint(0, 3)):
            name = rng.choice(["mine", "Mine", "other", "utf8-heavy", "x.y", "csv"])
            fields = rng.sample(DECOR_FIELDS, rng.randint(1, 6))
            b.ops.append({"op": "regdecor", "name": name, "custom": dict(zip(fields, rng.sample(GLYPHS, len(fields))))})
            mine.append(name)
        b.ops.append({"op": "wrap", "kind": "text", "over": {"t": 1}})
        for _ in range(rng.randint(1, 5)):
            name = rng.choice(DECOR_NAMES + mine + mine + ["nonesuch", "", "NONE", "Utf8-Heavy", "mine", "ascii", " none", "none "])
            b.ops.append({"op": "decor", "w": 1, "name": name})
            b.ops.append({"op": "render", "w": 1, "entry": rng.choice(["Render", "RenderTo"])})
            if rng.random() < 0.4:
                # register / overwrite a name after it has been used: the next selection by name sees the latest
                nm = rng.choice(mine + ["mine", "late"])
                fields = rng.sample(DECOR_FIELDS, rng.randint(1, 6))
                b.ops.append({"op": "regdecor", "name": nm, "custom": dict(zip(fields, rng.sample(GLYPHS, len(fields))))})
                mine.append(nm)
                b.ops.append({"op": "decor", "w": 1, "name": nm})
                b.ops.append({"op": "render", "w": 1, "entry": "Render"})
        out.append(b.ops)
    return out


def gen_auto(seed, tier):
    """C19: random registry extensions (dotted, case variants, sub-package look-alikes) and style strings."""
    rng = random.Random(seed * 15487469 + 19)
    n = 120 if tier == "quick" else 3000
    out = []
    names = ["mine", "Mine", "MINE", "a.b", "a.b.c", "x", "csv", "CSV", "Json", "texttable", "texttable.z", "utf8-heavy", "my style", "é", "a",
             "csv-friendly", "html5-boxes", "jsonx", "markdownish", "texttable-compact", "dashed", "ivy.league", "e", "htm", "json.x"]
    base = ["csv", "html", "json", "markdown", "texttable"] + DECOR_NAMES
    for i in range(n):
        ops = []
        regd = []
        for _ in range(rng.randint(0, 3)):
            nm = rng.choice(names)
            fields = rng.sample(DECOR_FIELDS, rng.randint(1, 5))
            ops.append({"op": "regdecor", "name": nm, "custom": dict(zip(fields, rng.sample(GLYPHS, len(fields))))})
            regd.append(nm)
        if i % 4 == 0:
            # list, register a new name, list twice: the listing must follow the registry
            nm = rng.choice(names)
            ops = [{"op": "liststyles"}] + ops + [{"op": "regdecor", "name": nm, "custom": {"Horizontal": "~"}},
                                                   {"op": "liststyles"}, {"op": "liststyles"}, {"op": "autonew", "style": nm}]
            regd.append(nm)
        for _ in range(rng.randint(1, 6)):
            if rng.random() < 0.15:
                ops.append({"op": "liststyles"})
                continue
            s = rng.choice(base + regd + regd + ["nonesuch", ""])
            r = rng.random()
            if r < 0.2:
                s = s.upper()
            elif r < 0.3:
                s = s.capitalize()
            if rng.random() < 0.3:
                s = rng.choice(["texttable.", "TextTable.", "TEXTTABLE."]) + s
            if rng.random() < 0.3:
                s = s + rng.choice([".x", ".x.y", ".", "..", ".csv"])
            ops.append({"op": "autonew", "style": s})
        out.append(ops)
    return out
