------------------------------- MODULE MCText -------------------------------
(***************************************************************************)
(* C03 / C04, bounded model: all small grids over an alphabet of cell      *)
(* shapes (empty, one narrow line, one wide line, two lines, items that    *)
(* declare a width or a height), optional header of any length, separators *)
(* anywhere, ragged and empty rows; then every assignment of alignments to *)
(* column 0 and each column; then a text wrapper, a decoration, a render.  *)
(* Model level: the implementation-shaped emitter satisfies the            *)
(* declarative layout relation.  Every render scenario is written out.     *)
(***************************************************************************)
EXTENDS TabularRender, Json, CSV
CONSTANTS CellNames, MaxCols, MaxRows, AlignVals, DecorNames, HdrChoices, GenFile
VARIABLES st, hist, ph
vars == <<st, hist, ph>>

L(s) == << <<s, Len(s)>> >>
ItemOf(name) ==
  CASE name = "e"  -> [k |-> "str", s |-> "", tx |-> [s |-> <<>>]]
    [] name = "a"  -> [k |-> "str", s |-> "a", tx |-> [s |-> L("a")]]
    [] name = "w"  -> [k |-> "str", s |-> "bbb", tx |-> [s |-> L("bbb")]]
    [] name = "m"  -> [k |-> "str", s |-> "a\nbb", tx |-> [s |-> << <<"a", 1>>, <<"bb", 2>> >>]]
    [] name = "n"  -> [k |-> "nil"]
    [] name = "W5" -> [k |-> "obj", caps |-> <<"String", "Width">>, strv |-> "ab", gov |-> "", errv |-> "", fmtv |-> "F", h |-> 0, w |-> 5,
                       tx |-> [strv |-> L("ab"), gov |-> <<>>, errv |-> <<>>, fmtv |-> L("F")]]
    [] name = "W1" -> [k |-> "obj", caps |-> <<"String", "Width">>, strv |-> "abc", gov |-> "", errv |-> "", fmtv |-> "F", h |-> 0, w |-> 1,
                       tx |-> [strv |-> L("abc"), gov |-> <<>>, errv |-> <<>>, fmtv |-> L("F")]]
    [] name = "H3" -> [k |-> "obj", caps |-> <<"String", "Height">>, strv |-> "a", gov |-> "", errv |-> "", fmtv |-> "F", h |-> 3, w |-> 0,
                       tx |-> [strv |-> L("a"), gov |-> <<>>, errv |-> <<>>, fmtv |-> L("F")]]
    [] name = "H1" -> [k |-> "obj", caps |-> <<"String", "Height">>, strv |-> "a\nbb", gov |-> "", errv |-> "", fmtv |-> "F", h |-> 1, w |-> 0,
                       tx |-> [strv |-> << <<"a", 1>>, <<"bb", 2>> >>, gov |-> <<>>, errv |-> <<>>, fmtv |-> L("F")]]

Tuples(n) == [1..n -> CellNames]
ItemsOf(tp) == [i \in DOMAIN tp |-> ItemOf(tp[i])]
T == st.tbl[1]

BuildOps ==
  (IF ~T.hdrp /\ Len(T.rows) = 0
   THEN {[op |-> "headers", t |-> 1, items |-> ItemsOf(tp)] : tp \in UNION {Tuples(n) : n \in HdrChoices}} ELSE {})
  \cup (IF Len(T.rows) < MaxRows
        THEN {[op |-> "rowitems", t |-> 1, items |-> ItemsOf(tp)] : tp \in UNION {Tuples(n) : n \in 0..MaxCols}}
             \cup {[op |-> "sep", t |-> 1]}
        ELSE {})

AlignCol == CASE ph = "align0" -> 0 [] ph = "align1" -> 1 [] ph = "align2" -> 2 [] OTHER -> -1
NextAlignPh == CASE ph = "build" -> "align0" [] ph = "align0" -> "align1" [] ph = "align1" -> "align2" [] OTHER -> "wrap"

NewT == [op |-> "newtable", via |-> "core"]
Init == /\ st = Apply(InitState, NewT, <<>>) /\ hist = <<NewT>> /\ ph = "build"

Do(op, nph) == /\ st' = Apply(st, op, <<>>) /\ hist' = Append(hist, op) /\ ph' = nph
Skip(nph) == /\ UNCHANGED <<st, hist>> /\ ph' = nph

Next ==
  \/ ph = "build" /\ \E op \in BuildOps : Do(op, "build")
  \/ ph = "build" /\ Skip("align0")
  \/ /\ ph \in {"align0", "align1", "align2"}
     /\ \/ Skip(NextAlignPh)
        \/ /\ AlignCol <= T.ncols
           /\ \E v \in AlignVals : Do([op |-> "setprop", owner |-> [kind |-> "column", t |-> 1, n |-> AlignCol],
                                        k |-> "k_align", v |-> v], NextAlignPh)
  \/ ph = "wrap" /\ Do([op |-> "wrap", kind |-> "text", over |-> [t |-> 1]], "decor")
  \/ ph = "decor" /\ \E d \in DecorNames :
        IF d = "default" THEN Skip("render")
        ELSE Do([op |-> "decor", w |-> 1, name |-> d,
                 dec |-> IF d = "none" THEN [DefaultDec EXCEPT !.boxless = 1, !.g = [f \in DOMAIN DefaultDec.g |-> ""]]
                         ELSE DefaultDec], "render")
  \/ ph = "render" /\ Do([op |-> "render", w |-> 1, entry |-> "Render"], "done")

Spec == Init /\ [][Next]_vars
View == <<st, ph>>
Emit == GenFile = "" \/ ph' # "done" \/ CSVWrite("%1$s", <<ToJson(hist')>>, GenFile)

Inv == /\ Inv_C02(st)
       /\ (ph = "render") => EmitTextOK(st, 1, st.wr[1].dec)
=============================================================================
