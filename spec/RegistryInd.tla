---------------------------- MODULE RegistryInd ----------------------------
(***************************************************************************)
(* Unbounded-in-time safety of the registry's locking discipline, as an    *)
(* inductive invariant discharged by Apalache (Init => IndInv at length 0, *)
(* IndInv /\ Next => IndInv' at length 1).  This is the lock / body /      *)
(* unlock skeleton of Registry.tla (readers/writer form) with the registry *)
(* content abstracted to a version counter: what is established is that a  *)
(* writer excludes everybody and that the content changes only in a Body   *)
(* step of the writer.                                                     *)
(***************************************************************************)
EXTENDS Integers

CONSTANT
  \* @type: Set(Int);
  Procs

VARIABLES
  \* @type: Int;
  writer,
  \* @type: Set(Int);
  readers,
  \* @type: Int -> Str;
  pc,
  \* @type: Int -> Bool;
  wr,
  \* @type: Int;
  version

CInit == Procs = {1, 2, 3, 4}

Init == /\ writer = 0 /\ readers = {} /\ pc = [p \in Procs |-> "idle"] /\ wr = [p \in Procs |-> FALSE] /\ version = 0

LockW(p) == /\ pc[p] = "idle" /\ writer = 0 /\ readers = {}
            /\ writer' = p /\ wr' = [wr EXCEPT ![p] = TRUE] /\ pc' = [pc EXCEPT ![p] = "locked"]
            /\ UNCHANGED <<readers, version>>
LockR(p) == /\ pc[p] = "idle" /\ writer = 0
            /\ readers' = readers \cup {p} /\ wr' = [wr EXCEPT ![p] = FALSE] /\ pc' = [pc EXCEPT ![p] = "locked"]
            /\ UNCHANGED <<writer, version>>
Body(p) == /\ pc[p] = "locked"
           /\ pc' = [pc EXCEPT ![p] = "done"]
           /\ version' = IF wr[p] THEN version + 1 ELSE version
           /\ UNCHANGED <<writer, readers, wr>>
Unlock(p) == /\ pc[p] = "done"
             /\ \/ (wr[p] /\ writer' = 0 /\ readers' = readers)
                \/ (~wr[p] /\ readers' = readers \ {p} /\ writer' = writer)
             /\ pc' = [pc EXCEPT ![p] = "idle"] /\ UNCHANGED <<wr, version>>

Next == \E p \in Procs : LockW(p) \/ LockR(p) \/ Body(p) \/ Unlock(p)

TypeOK == /\ writer \in Procs \cup {0} /\ readers \in SUBSET Procs
          /\ pc \in [Procs -> {"idle", "locked", "done"}] /\ wr \in [Procs -> BOOLEAN]
          /\ version \in Nat

\* a writer in its critical section is alone there
WriterExclusive == \A p, q \in Procs : (pc[p] # "idle" /\ wr[p] /\ pc[q] # "idle") => p = q

IndInv == /\ TypeOK
          /\ \A p \in Procs : (pc[p] # "idle" /\ wr[p]) <=> (writer = p)
          /\ \A p \in Procs : (pc[p] # "idle" /\ ~wr[p]) <=> (p \in readers)
          /\ (writer # 0 => readers = {})
          /\ WriterExclusive

IndInit == IndInv
=============================================================================
