--------------------------- MODULE RegistryProof ---------------------------
(***************************************************************************)
(* TLAPS proof that the lock / body / unlock discipline of Registry.tla    *)
(* (readers/writer form) keeps a writer alone in its critical section for  *)
(* ANY set of processes and for ever (the TLC runs cover 3 processes x 2   *)
(* operations; Apalache the inductive step for 4 processes).  The registry *)
(* content is abstracted away.                                             *)
(***************************************************************************)
EXTENDS Integers, TLAPS

CONSTANT Procs
ASSUME ProcsAssm == 0 \notin Procs

VARIABLES writer, readers, pc, wr
vars == <<writer, readers, pc, wr>>

Init == /\ writer = 0 /\ readers = {} /\ pc = [p \in Procs |-> "idle"] /\ wr = [p \in Procs |-> FALSE]

LockW(p) == /\ pc[p] = "idle" /\ writer = 0 /\ readers = {}
            /\ writer' = p /\ wr' = [wr EXCEPT ![p] = TRUE] /\ pc' = [pc EXCEPT ![p] = "locked"]
            /\ UNCHANGED readers
LockR(p) == /\ pc[p] = "idle" /\ writer = 0
            /\ readers' = readers \cup {p} /\ wr' = [wr EXCEPT ![p] = FALSE] /\ pc' = [pc EXCEPT ![p] = "locked"]
            /\ UNCHANGED writer
Body(p) == /\ pc[p] = "locked" /\ pc' = [pc EXCEPT ![p] = "done"] /\ UNCHANGED <<writer, readers, wr>>
Unlock(p) == /\ pc[p] = "done"
             /\ IF wr[p] THEN writer' = 0 /\ UNCHANGED readers ELSE readers' = readers \ {p} /\ UNCHANGED writer
             /\ pc' = [pc EXCEPT ![p] = "idle"] /\ UNCHANGED wr

Next == \E p \in Procs : LockW(p) \/ LockR(p) \/ Body(p) \/ Unlock(p)
Spec == Init /\ [][Next]_vars

TypeOK == /\ writer \in Procs \cup {0} /\ readers \subseteq Procs
          /\ pc \in [Procs -> {"idle", "locked", "done"}] /\ wr \in [Procs -> BOOLEAN]

WriterExclusive == \A p, q \in Procs : (pc[p] # "idle" /\ wr[p] /\ pc[q] # "idle") => p = q

IndInv == /\ TypeOK
          /\ \A p \in Procs : (pc[p] # "idle" /\ wr[p]) <=> (writer = p)
          /\ \A p \in Procs : (pc[p] # "idle" /\ ~wr[p]) <=> (p \in readers)
          /\ (writer # 0 => readers = {})

LEMMA IndImpliesWE == IndInv => WriterExclusive
  BY ProcsAssm DEF IndInv, WriterExclusive, TypeOK

THEOREM Safety == Spec => []WriterExclusive
<1>1. Init => IndInv
  BY ProcsAssm DEF Init, IndInv, TypeOK
<1>2. IndInv /\ [Next]_vars => IndInv'
  <2> SUFFICES ASSUME IndInv, [Next]_vars PROVE IndInv'
    OBVIOUS
  <2>1. ASSUME NEW p \in Procs, LockW(p) PROVE IndInv'
    BY <2>1, ProcsAssm DEF LockW, IndInv, TypeOK
  <2>2. ASSUME NEW p \in Procs, LockR(p) PROVE IndInv'
    BY <2>2, ProcsAssm DEF LockR, IndInv, TypeOK
  <2>3. ASSUME NEW p \in Procs, Body(p) PROVE IndInv'
    BY <2>3, ProcsAssm DEF Body, IndInv, TypeOK
  <2>4. ASSUME NEW p \in Procs, Unlock(p) PROVE IndInv'
    BY <2>4, ProcsAssm DEF Unlock, IndInv, TypeOK
  <2>5. CASE UNCHANGED vars
    BY <2>5 DEF vars, IndInv, TypeOK
  <2>6. QED
    BY <2>1, <2>2, <2>3, <2>4, <2>5 DEF Next
<1>3. IndInv => WriterExclusive
  BY IndImpliesWE
<1>4. QED
  BY <1>1, <1>2, <1>3, PTL DEF Spec
=============================================================================
