----------------------------- MODULE MCRegistry -----------------------------
(***************************************************************************)
(* C17, bounded model: NP processes, each running one of the small         *)
(* programs over two names; every interleaving of lock / body / unlock.    *)
(* Every complete behaviour's linearization order is written out as a      *)
(* forced schedule for the real registry.                                  *)
(***************************************************************************)
EXTENDS Registry, Json, CSV
CONSTANTS GenFile, ProgSet

\* the programs (chosen in the cfg through ProgSet)
R(n, d) == [op |-> "register", name |-> n, d |-> d]
N(n) == [op |-> "named", name |-> n]
Li == [op |-> "list"]

MCProg ==
  CASE ProgSet = "rw"  -> (1 :> <<R("x", "d1"), N("x")>> @@ 2 :> <<R("x", "d2"), N("y")>> @@ 3 :> <<N("x"), Li>>)
    [] ProgSet = "ww"  -> (1 :> <<R("x", "d1"), R("y", "d1")>> @@ 2 :> <<R("y", "d2"), R("x", "d2")>> @@ 3 :> <<Li, N("x")>>)
    [] ProgSet = "mix" -> (1 :> <<R("x", "d1"), Li>> @@ 2 :> <<N("x"), R("x", "d2")>> @@ 3 :> <<N("x"), N("x")>>)
MCProcs == {1, 2, 3}
MCBuiltins == ("b" :> "db")

View == <<reg, lock, pc, ip, results, order>>
EmitDone == GenFile = "" \/ ~AllDone' \/ AllDone
            \/ CSVWrite("%1$s", <<ToJson([procs |-> [p \in 1..3 |-> MCProg[p]], order |-> order'])>>, GenFile)

Inv == MutualExclusion /\ Linearizable /\ LookupSound /\ FinalState /\ ListingComplete
=============================================================================
