package main

import (
	"bufio"
	"bytes"
	"crypto/sha1"
	"encoding/json"
	"fmt"
	"math/rand"
	"os"
	"runtime"
	"sort"
	"strconv"
	"sync"
	"sync/atomic"
	"time"

	"go.pennock.tech/tabular/auto"
	"go.pennock.tech/tabular/texttable/decoration"
)

// Registry mode (C17). Input lines:
//   {"procs": [[op...]...], "order": [[p, i]...]}   forced schedule (a linearization order of MCRegistry)
//   {"stress": {"g": 8, "n": 200, "seed": 1}}       free-running goroutines
// Output: two NDJSON lines per registry operation, "call" and "ret", stamped by one atomic clock immediately
// before the call and immediately after its return, sorted by stamp. Nothing inside the library is
// instrumented; RegistryTrace.tla validates the log knowing only this real-time order.

func decID(d decoration.Decoration) string {
	if d == (decoration.Decoration{}) { // (the zero value itself, not the library's variable that names it)
		return "EMPTY"
	}
	h := sha1.Sum([]byte(fmt.Sprintf("%+v", d)))
	return fmt.Sprintf("%x", h[:6])
}

func decFromToken(tok string) decoration.Decoration {
	d := decoration.Decoration{HOuter: tok, Horizontal: "-", Vertical: "|", CrossPiece: "+"}
	d.Populate()
	return d
}

var regClock atomic.Int64

// regLog is one goroutine's own list of lines. (The two stamps of a call are reads of one atomic clock: each is
// itself a synchronisation point, so the stamped runs are complemented by an unstamped pass -- see stress.)
type regLog struct {
	g     int
	lines []M
	kept  [][2][]string // every listing as it was returned, and a copy taken at once
}

func (rl *regLog) do(op M, prefix string) {
	name := ""
	if _, ok := op["name"]; ok {
		name = prefix + opStr(op, "name")
	}
	kind := opStr(op, "op")
	call := M{"ev": "call", "op": kind, "g": rl.g, "name": name}
	ret := M{"ev": "ret", "op": kind, "g": rl.g, "name": name}
	switch kind {
	case "register":
		d := decFromToken(prefix + opStr(op, "d"))
		call["did"] = decID(d)
		call["t"] = regClock.Add(1)
		decoration.RegisterDecorationName(name, d)
		ret["t"] = regClock.Add(1)
	case "named":
		call["t"] = regClock.Add(1)
		d := decoration.Named(name)
		ret["t"] = regClock.Add(1)
		ret["res"] = decID(d)
	case "list":
		call["t"] = regClock.Add(1)
		l := decoration.RegisteredDecorationNames()
		ret["t"] = regClock.Add(1)
		rl.kept = append(rl.kept, [2][]string{l, append([]string(nil), l...)})
		il := make([]interface{}, len(l))
		for i, s := range l {
			il[i] = s
		}
		ret["res"] = il
		ret["sorted"] = b2i(sort.StringsAreSorted(l))
	case "styles":
		// (read through another API while the registry is busy; its result is checked at quiescence)
		auto.ListStyles()
		return
	default:
		derr("registry op %v", op["op"])
	}
	rl.lines = append(rl.lines, call, ret)
}

func toIfaces(l []string) []interface{} {
	il := make([]interface{}, len(l))
	for i, s := range l {
		il[i] = s
	}
	return il
}

// A registry call that never returns gives no answer at all: every concurrent scenario runs under a watchdog.
// On expiry the goroutine dump is printed and the process exits with status 3; the orchestrator reports a
// violation only if the dump shows a goroutine blocked inside the library.
var hangTimeout = 300 * time.Second

func waitOrHang(wg *sync.WaitGroup, scen string) {
	done := make(chan struct{})
	go func() { wg.Wait(); close(done) }()
	select {
	case <-done:
	case <-time.After(hangTimeout):
		buf := make([]byte, 4<<20)
		n := runtime.Stack(buf, true)
		fmt.Fprintf(os.Stderr, "vdrive: HANG scenario %s: registry calls did not return within %v\n%s\n", scen, hangTimeout, buf[:n])
		os.Exit(3)
	}
}

func flushRegLogs(out *bufio.Writer, scen string, logs []*regLog) int {
	var all []M
	for _, rl := range logs {
		all = append(all, rl.lines...)
	}
	sort.Slice(all, func(i, j int) bool { return all[i]["t"].(int64) < all[j]["t"].(int64) })
	for _, ln := range all {
		ln["scen"] = scen
		writeLine(out, ln)
	}
	// a listing belongs to its caller: what was returned must still be what it was, whatever was registered since
	for _, rl := range logs {
		for _, k := range rl.kept {
			same := len(k[0]) == len(k[1])
			for i := 0; same && i < len(k[0]); i++ {
				same = k[0][i] == k[1][i]
			}
			if !same {
				writeLine(out, M{"ev": "listchanged", "op": "list", "scen": scen, "g": rl.g, "was": toIfaces(k[1]), "is": toIfaces(k[0])})
			}
		}
		rl.kept = nil
	}
	return len(all) / 2
}

func runRegistryMode(in *os.File, out *bufio.Writer) {
	// The very first contact of this process with the registry may be an application's override of a
	// built-in name (as from an init function): it must stick.
	early := []interface{}{}
	if *flagEarly != "" {
		d := decFromToken("early-" + *flagEarly)
		decoration.RegisterDecorationName(*flagEarly, d)
		early = []interface{}{*flagEarly, decID(d)}
	}
	// initial content
	init := []interface{}{}
	for _, n := range decoration.RegisteredDecorationNames() {
		init = append(init, []interface{}{n, decID(decoration.Named(n))})
	}
	// (the documented built-in names are a constant of this driver, not read from the library)
	writeLine(out, M{"ev": "init", "names": init, "early": early,
		"builtins": []interface{}{"ascii-simple", "none", "utf8-light", "utf8-light-curved", "utf8-heavy", "utf8-double"}})

	sc := bufio.NewScanner(in)
	sc.Buffer(make([]byte, 1<<20), 1<<26)
	n, nops := 0, 0
	for sc.Scan() {
		line := bytes.TrimSpace(sc.Bytes())
		if len(line) == 0 {
			continue
		}
		if line[0] == '"' {
			var s string
			if err := json.Unmarshal(line, &s); err != nil {
				fatal(err)
			}
			line = []byte(s)
		}
		dec := json.NewDecoder(bytes.NewReader(line))
		dec.UseNumber()
		var sc M
		if err := dec.Decode(&sc); err != nil {
			fatal(err)
		}
		n++
		scen := fmt.Sprintf("g%d", n)
		prefix := scen + "_"
		if n%2 == 1 {
			// every other scenario uses names that sort after all built-in names, so that
			// overwriting the lexicographically greatest registered name is exercised too
			prefix = fmt.Sprintf("zz%06d_", n)
		}
		switch {
		case sc["procs"] != nil:
			procs := opList(sc, "procs")
			order := opList(sc, "order")
			// forced schedule: goroutine p performs its i-th op when (p, i) is next in order
			turn := make([]chan struct{}, len(order)+1)
			for i := range turn {
				turn[i] = make(chan struct{})
			}
			pos := map[[2]int]int{}
			for k, o := range order {
				oo := o.([]interface{})
				p, _ := strconv.Atoi(string(oo[0].(json.Number)))
				i, _ := strconv.Atoi(string(oo[1].(json.Number)))
				pos[[2]int{p, i}] = k
			}
			logs := make([]*regLog, len(procs))
			var wg sync.WaitGroup
			for pi, pr := range procs {
				wg.Add(1)
				logs[pi] = &regLog{g: pi + 1}
				go func(p int, ops []interface{}, rl *regLog) {
					defer wg.Done()
					for i, o := range ops {
						k, ok := pos[[2]int{p, i + 1}]
						if !ok {
							derr("forced schedule lacks (%d, %d)", p, i+1)
						}
						<-turn[k]
						rl.do(o.(map[string]interface{}), prefix)
						close(turn[k+1])
					}
				}(pi+1, pr.([]interface{}), logs[pi])
			}
			close(turn[0])
			waitOrHang(&wg, scen)
			nops += flushRegLogs(out, scen, logs)
		case sc["stress"] != nil:
			st := opMap(sc, "stress")
			G, N := opInt(st, "g"), opInt(st, "n")
			seed := int64(opInt(st, "seed"))
			logs := make([]*regLog, G)
			var wg sync.WaitGroup
			start := make(chan struct{})
			for p := 0; p < G; p++ {
				wg.Add(1)
				logs[p] = &regLog{g: p + 1}
				go func(p int, rl *regLog) {
					defer wg.Done()
					rng := rand.New(rand.NewSource(seed*1000 + int64(p)))
					<-start
					for i := 0; i < N; i++ {
						name := fmt.Sprintf("n%d", rng.Intn(4))
						var op M
						switch r := rng.Intn(10); {
						case r < 3:
							op = M{"op": "register", "name": name, "d": fmt.Sprintf("p%d_%d", p, i)}
						case r < 7:
							op = M{"op": "named", "name": name}
						case r < 8:
							op = M{"op": "styles"}
						default:
							op = M{"op": "list"}
						}
						rl.do(op, prefix)
						if rng.Intn(4) == 0 {
							runtime.Gosched()
						}
					}
				}(p, logs[p])
			}
			close(start)
			waitOrHang(&wg, scen)
			// quiescent read-back: once the registrations have finished, the latest one is what every name
			// denotes, and both listings show every registered name
			// (several lookups per name: when the last registrations of a name overlapped each other either may be the
			// latest, but every lookup must name the same one)
			q := &regLog{g: G + 1}
			for k := 0; k < 3; k++ {
				for i := 0; i < 4; i++ {
					q.do(M{"op": "named", "name": fmt.Sprintf("n%d", i)}, prefix)
				}
			}
			q.do(M{"op": "list"}, prefix)
			// the same again from goroutines of their own, concurrently (lookups only: still quiescent for every name)
			qs := make([]*regLog, 3)
			var qwg sync.WaitGroup
			for k := range qs {
				qs[k] = &regLog{g: G + 2 + k}
				qwg.Add(1)
				go func(rl *regLog) {
					defer qwg.Done()
					for i := 0; i < 4; i++ {
						rl.do(M{"op": "named", "name": fmt.Sprintf("n%d", i)}, prefix)
					}
				}(qs[k])
			}
			waitOrHang(&qwg, scen)
			nops += flushRegLogs(out, scen, append(append(logs, q), qs...))
			// an unstamped pass for the race detector alone: the clock above is itself a synchronisation (every
			// stamp orders the calls around it), which on few cores can hide an unsynchronised access
			var hwg sync.WaitGroup
			for p := 0; p < G; p++ {
				hwg.Add(1)
				go func(p int) {
					defer hwg.Done()
					rng := rand.New(rand.NewSource(seed*7000 + int64(p)))
					for i := 0; i < N; i++ {
						name := prefix + fmt.Sprintf("n%d", rng.Intn(4))
						switch r := rng.Intn(10); {
						case r < 3:
							decoration.RegisterDecorationName(name, decFromToken(fmt.Sprintf("%sh%d_%d", prefix, p, i)))
						case r < 7:
							decoration.Named(name)
						case r < 8:
							auto.ListStyles()
						default:
							decoration.RegisteredDecorationNames()
						}
					}
				}(p)
			}
			waitOrHang(&hwg, scen)
			ls := auto.ListStyles()
			il := make([]interface{}, len(ls))
			for i, x := range ls {
				il[i] = x
			}
			writeLine(out, M{"ev": "styles", "scen": scen, "res": il, "sorted": b2i(sort.StringsAreSorted(ls))})
		case sc["burst"] != nil:
			// many short rounds: one goroutine registers a burst of fresh names while others list the styles;
			// after joining, the style listing must show every one of them (C19 under concurrency)
			st := opMap(sc, "burst")
			R, K := opInt(st, "rounds"), opInt(st, "names")
			for r := 0; r < R; r++ {
				rscen := fmt.Sprintf("%s.%d", scen, r)
				logs := []*regLog{{g: 1}, {g: 2}, {g: 3}}
				var wg sync.WaitGroup
				stop := make(chan struct{})
				start := make(chan struct{})
				for p := 0; p < 2; p++ {
					wg.Add(1)
					go func(rl *regLog) {
						defer wg.Done()
						<-start
						for k := 0; ; k++ {
							select {
							case <-stop:
								return
							default:
							}
							if k%2 == 0 {
								auto.ListStyles()
							} else if len(rl.lines) < 40 {
								rl.do(M{"op": "list"}, prefix)
							} else {
								decoration.RegisteredDecorationNames()
							}
							runtime.Gosched()
						}
					}(logs[p+1])
				}
				wg.Add(1)
				go func(rl *regLog) {
					defer wg.Done()
					<-start
					for k := 0; k < K; k++ {
						rl.do(M{"op": "register", "name": fmt.Sprintf("b%d_%d", r, k), "d": fmt.Sprintf("b%d_%d", r, k)}, prefix)
						runtime.Gosched()
					}
					close(stop)
				}(logs[0])
				close(start)
				waitOrHang(&wg, rscen)
				// quiescent: the listing shows every name registered in the burst
				q := &regLog{g: 4}
				q.do(M{"op": "list"}, prefix)
				nops += flushRegLogs(out, rscen, append(logs, q))
				ls := auto.ListStyles()
				il := make([]interface{}, len(ls))
				for i, x := range ls {
					il[i] = x
				}
				writeLine(out, M{"ev": "styles", "scen": rscen, "res": il, "sorted": b2i(sort.StringsAreSorted(ls))})
			}
		default:
			derr("registry mode: unknown line")
		}
	}
	if err := sc.Err(); err != nil {
		fatal(err)
	}
	fmt.Fprintf(os.Stderr, "vdrive: {\"scenarios\": %d, \"ops\": %d}\n", n, nops)
}
