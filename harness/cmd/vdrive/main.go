// vdrive executes scenarios (sequences of operation records, the wire format of
// the TLA+ specification's operations) against the real tabular library built
// from /repo, and logs one NDJSON trace line per operation: the operation with
// its concrete arguments and the projection ("facets") of the library's state
// or output that the properties talk about.
package main

import (
	"bufio"
	"bytes"
	"encoding/json"
	"flag"
	"fmt"
	"hash/crc32"
	"os"
	"os/exec"
	"strings"
	"sync/atomic"
)

type M = map[string]interface{}

var (
	flagIn     = flag.String("in", "", "scenario file (NDJSON: one JSON array of ops, or {id,ops}, per line); - for stdin")
	flagOut    = flag.String("out", "", "trace file (NDJSON)")
	flagFacets = flag.String("facets", "grid", "comma-separated facets to observe")
	flagEvery  = flag.Bool("every", false, "observe after every op (default: only after the last op of a scenario)")
	flagSubst  = flag.Int64("subst", 0, "if non-zero, seed of the literal substitution (rich strings for tiny literals)")
	flagPool   = flag.String("pool", "text", "substitution pool: text|csv|html|json|md")
	flagUnq    = flag.Bool("unquote", false, "input lines are TLC CSVWrite lines: a TLA+ string literal holding JSON")
	flagSelf   = flag.String("selftest", "", "run the lexer self-tests (html|md|json|all) and exit")
	flagFinal  = flag.String("final", "", "append this op (for table 1) to every scenario: renderall")
	flagSwap   = flag.String("swapfinal", "", "turn the final render op of every scenario into this op (faultsweep)")
	flagChild  = flag.Bool("child", false, "(internal) run scenarios in this process even if they touch the registry")
	flagEarly  = flag.String("early", "", "registry mode: override this built-in decoration name before anything else touches the registry")
	flagRounds = flag.Int("rounds", 3, "conc mode: concurrent rounds")
	flagGroup  = flag.Int("group", 16, "conc mode: goroutines per round")
	flagBytes  = flag.Bool("bytes", false, "item strings are byte strings in Latin-1 transport (CSV family)")
	flagMode   = flag.String("mode", "scenario", "scenario | registry | conc (special drivers)")
)

func main() {
	flag.Parse()
	if *flagSelf != "" {
		os.Exit(runSelfTests(*flagSelf))
	}
	var in *os.File
	var err error
	if *flagIn == "-" || *flagIn == "" {
		in = os.Stdin
	} else {
		in, err = os.Open(*flagIn)
		if err != nil {
			fatal(err)
		}
		defer in.Close()
	}
	outf := os.Stdout
	if *flagOut != "" {
		outf, err = os.Create(*flagOut)
		if err != nil {
			fatal(err)
		}
	}
	w := bufio.NewWriterSize(outf, 1<<20)
	finish := func() {
		// a trace that could not be written completely must never look like a shorter, valid one
		if err := w.Flush(); err != nil {
			fatal(fmt.Errorf("writing the trace: %v", err))
		}
		if outf != os.Stdout {
			if err := outf.Close(); err != nil {
				fatal(fmt.Errorf("closing the trace: %v", err))
			}
		}
	}

	bytesMode = *flagBytes
	facets := map[string]bool{}
	for _, f := range strings.Split(*flagFacets, ",") {
		if f != "" {
			facets[f] = true
		}
	}

	switch *flagMode {
	case "scenario":
	case "registry":
		runRegistryMode(in, w)
		finish()
		return
	case "conc":
		runConcMode(in, w, facets)
		finish()
		return
	default:
		fatal(fmt.Errorf("unknown mode %q", *flagMode))
	}

	sc := bufio.NewScanner(in)
	sc.Buffer(make([]byte, 1<<20), 1<<28)
	n := 0
	stats := M{"scenarios": 0, "ops": 0}
	nops := 0
	for sc.Scan() {
		line := bytes.TrimSpace(sc.Bytes())
		if len(line) == 0 {
			continue
		}
		id, ops, err := parseScenarioLine(line, *flagUnq)
		if err != nil {
			fatal(fmt.Errorf("scenario line %d: %v", n+1, err))
		}
		n++
		if id == "" {
			id = fmt.Sprintf("s%d", n)
		}
		if *flagFinal != "" {
			ops = append(ops, M{"op": *flagFinal, "t": json.Number("1")})
		}
		if *flagSwap != "" && len(ops) > 0 && ops[len(ops)-1]["op"] == "render" {
			ops[len(ops)-1]["op"] = *flagSwap
		}
		var sub *substitution
		if *flagSubst != 0 {
			// seeded by the scenario's id, so that a single scenario re-run alone gets the same strings
			sub = newSubstitution(*flagSubst*1000003+int64(crc32.ChecksumIEEE([]byte(id))), *flagPool)
		}
		if !*flagChild && touchesRegistry(ops) {
			// the decoration registry is process-global and only grows: a scenario
			// that registers names runs in a process of its own
			if err := w.Flush(); err != nil {
				fatal(fmt.Errorf("writing the trace: %v", err))
			}
			cst := runIsolated(outf, id, ops)
			nops += len(ops)
			faultRuns.Add(int64(cst.FaultRuns))
			renderCalls.Add(int64(cst.Renders))
			continue
		}
		runScenario(w, id, ops, facets, *flagEvery, sub)
		nops += len(ops)
	}
	if err := sc.Err(); err != nil {
		fatal(err)
	}
	stats["scenarios"] = n
	stats["ops"] = nops
	stats["faultruns"] = faultRuns.Load()
	stats["renders"] = renderCalls.Load()
	finish()
	b, _ := json.Marshal(stats)
	fmt.Fprintf(os.Stderr, "vdrive: %s\n", b)
}

// counters reported in the driver's stats line (evidence)
var faultRuns, renderCalls atomic.Int64 // (scenarios also run on goroutines of their own: C16)

func touchesRegistry(ops []M) bool {
	for _, op := range ops {
		if op["op"] == "regdecor" {
			return true
		}
	}
	return false
}

// runIsolated re-executes this binary for one scenario and copies its trace.
type childStats struct {
	FaultRuns int `json:"faultruns"`
	Renders   int `json:"renders"`
}

func runIsolated(out *os.File, id string, ops []M) childStats {
	b, err := json.Marshal(M{"id": id, "ops": ops})
	if err != nil {
		fatal(err)
	}
	// (the final/swapfinal rewriting has been applied to ops already; the substitution is seeded by the id)
	args := []string{"-child", "-in", "-", "-facets", *flagFacets, "-subst", fmt.Sprint(*flagSubst), "-pool", *flagPool}
	if *flagEvery {
		args = append(args, "-every")
	}
	if *flagBytes {
		args = append(args, "-bytes")
	}
	cmd := exec.Command(os.Args[0], args...)
	cmd.Stdin = bytes.NewReader(append(b, '\n'))
	cmd.Stdout = out
	var eb bytes.Buffer
	cmd.Stderr = &eb
	if err := cmd.Run(); err != nil {
		fatal(fmt.Errorf("isolated scenario %s: %v: %s", id, err, eb.String()))
	}
	var cst childStats
	if i := strings.LastIndex(eb.String(), "vdrive: {"); i >= 0 {
		json.Unmarshal([]byte(strings.TrimSpace(eb.String()[i+8:])), &cst)
	}
	return cst
}

func fatal(err error) {
	fmt.Fprintf(os.Stderr, "vdrive: fatal: %v\n", err)
	os.Exit(2)
}

// parseScenarioLine accepts a JSON array of ops, an object {id, ops}, or (with
// unquote) a TLA+ string literal (as written by CSV!CSVWrite of ToJson(x)).
func parseScenarioLine(line []byte, unq bool) (string, []M, error) {
	if unq || (len(line) > 0 && line[0] == '"') {
		var s string
		if err := json.Unmarshal(line, &s); err != nil {
			return "", nil, fmt.Errorf("unquote: %v", err)
		}
		line = []byte(s)
	}
	dec := json.NewDecoder(bytes.NewReader(line))
	dec.UseNumber()
	var v interface{}
	if err := dec.Decode(&v); err != nil {
		return "", nil, err
	}
	id := ""
	var arr []interface{}
	switch x := v.(type) {
	case []interface{}:
		arr = x
	case map[string]interface{}:
		if s, ok := x["id"].(string); ok {
			id = s
		}
		a, ok := x["ops"].([]interface{})
		if !ok {
			return "", nil, fmt.Errorf("object without ops")
		}
		arr = a
	default:
		return "", nil, fmt.Errorf("unexpected JSON %T", v)
	}
	ops := make([]M, 0, len(arr))
	for _, o := range arr {
		m, ok := o.(map[string]interface{})
		if !ok {
			return "", nil, fmt.Errorf("op is %T", o)
		}
		ops = append(ops, m)
	}
	return id, ops, nil
}

// writeLine writes v as one ASCII-only JSON line.
func writeLine(w *bufio.Writer, v interface{}) {
	var buf bytes.Buffer
	enc := json.NewEncoder(&buf)
	enc.SetEscapeHTML(false)
	if err := enc.Encode(v); err != nil {
		fatal(err)
	}
	asciiJSON(w, buf.Bytes())
}

// asciiJSON copies JSON text, escaping every non-ASCII rune as \uXXXX
// (surrogate pairs beyond the BMP), so that the file does not depend on the
// reader's default charset.
func asciiJSON(w *bufio.Writer, b []byte) {
	for _, r := range string(b) {
		switch {
		case r < 0x80:
			w.WriteByte(byte(r))
		case r < 0x10000:
			fmt.Fprintf(w, "\\u%04x", r)
		default:
			r -= 0x10000
			fmt.Fprintf(w, "\\u%04x\\u%04x", 0xd800+(r>>10), 0xdc00+(r&0x3ff))
		}
	}
}
