package main

import (
	"fmt"
	"html/template"
	"io"
	"reflect"
	"sort"

	"go.pennock.tech/tabular"
	"go.pennock.tech/tabular/auto"
	"go.pennock.tech/tabular/csv"
	"go.pennock.tech/tabular/html"
	tjson "go.pennock.tech/tabular/json"
	"go.pennock.tech/tabular/length"
	"go.pennock.tech/tabular/markdown"
	"go.pennock.tech/tabular/texttable"
	"go.pennock.tech/tabular/texttable/decoration"
)

type renderTable interface {
	tabular.Table
	Render() (string, error)
	RenderTo(io.Writer) error
}

// wrapper is one renderer wrapper object of the scenario.
type wrapper struct {
	kind  string // text csv html json md
	rt    renderTable
	over  int    // core table id
	decor string // description of the decoration last set (text only)
	gen   *genRec
}

type genRec struct {
	vals  []string
	calls []interface{}
}

func kindOf(rt interface{}) string {
	switch rt.(type) {
	case *texttable.TextTable:
		return "text"
	case *csv.CSVTable:
		return "csv"
	case *html.HTMLTable:
		return "html"
	case *tjson.JSONTable:
		return "json"
	case *markdown.MarkdownTable:
		return "md"
	}
	return fmt.Sprintf("?%T", rt)
}

// coreOf digs the *ATable out of any nesting of wrappers.
func coreOf(t tabular.Table) *tabular.ATable {
	for depth := 0; depth < 32; depth++ {
		switch x := t.(type) {
		case *tabular.ATable:
			return x
		case *texttable.TextTable:
			t = x.Table
		case *csv.CSVTable:
			t = x.Table
		case *html.HTMLTable:
			t = x.Table
		case *tjson.JSONTable:
			t = x.Table
		case *markdown.MarkdownTable:
			t = x.Table
		default:
			derr("coreOf: unexpected %T", t)
		}
	}
	derr("coreOf: too deep")
	return nil
}

// newTableVia creates a table down one of the creation paths. It returns the
// object through which the scenario's building calls are made, and the wrapper
// (nil for the core path).
func newTableVia(via, style string) (tabular.Table, *wrapper) {
	var rt renderTable
	switch via {
	case "core":
		return tabular.New(), nil
	case "csv":
		rt = csv.New()
	case "html":
		rt = html.New()
	case "json":
		rt = tjson.New()
	case "markdown":
		rt = markdown.New()
	case "texttable":
		rt = texttable.New()
	case "auto":
		rt = auto.New(style)
	default:
		derr("newtable via %q", via)
	}
	return rt, &wrapper{kind: kindOf(rt), rt: rt, decor: "default"}
}

func wrapKind(kind, style string, over tabular.Table) renderTable {
	switch kind {
	case "text":
		return texttable.Wrap(over)
	case "csv":
		return csv.Wrap(over)
	case "html":
		return html.Wrap(over)
	case "json":
		return tjson.Wrap(over)
	case "md":
		return markdown.Wrap(over)
	case "auto":
		return auto.Wrap(over, style)
	}
	derr("wrap kind %q", kind)
	return nil
}

var decorFields = []string{"Horizontal", "Vertical", "CrossPiece", "TopDown", "VBorder", "HOuter", "HRule", "VHeader",
	"VBodyBorder", "VBodyInner", "TopLeft", "TopRight", "BottomLeft", "BottomRight", "LeftBodyRule", "RightBodyRule",
	"HTopDown", "BTopDown", "BBottomUp", "HBCross", "HBLeft", "HBRight"}

// fields used when drawing (the others are only templates for Populate)
var renderFields = []string{"CrossPiece", "HOuter", "HRule", "VHeader", "VBodyBorder", "VBodyInner", "TopLeft", "TopRight",
	"BottomLeft", "BottomRight", "LeftBodyRule", "RightBodyRule", "HTopDown", "BTopDown", "BBottomUp", "HBCross", "HBLeft", "HBRight"}

func customDecoration(spec M) decoration.Decoration {
	var d decoration.Decoration
	v := reflect.ValueOf(&d).Elem()
	for k, g := range spec {
		f := v.FieldByName(k)
		if !f.IsValid() {
			derr("custom decoration: no field %q", k)
		}
		f.SetString(g.(string))
	}
	d.Populate()
	return d
}

// decorObs describes a decoration for the specification: is it boxless, is it
// the empty decoration, the glyphs of every drawing field.
func decorObs(d decoration.Decoration) M {
	v := reflect.ValueOf(d)
	g := M{}
	for _, f := range renderFields {
		g[f] = v.FieldByName(f).String()
	}
	boxless := 0
	if fmt.Sprintf("%+v", d) != fmt.Sprintf("%+v", decoration.EmptyDecoration) && allEmpty(g) {
		boxless = 1
	}
	return M{"boxless": boxless, "empty": b2i(d == decoration.EmptyDecoration), "g": g}
}

// decorOfWrapper reads the decoration a text wrapper currently holds (an
// unexported field, read through reflection; reading is permitted).
func decorOfWrapper(rt interface{}) M {
	tt, ok := rt.(*texttable.TextTable)
	if !ok {
		return nil
	}
	dv := decorField(tt)
	g := M{}
	all := ""
	for _, f := range renderFields {
		g[f] = dv.FieldByName(f).String()
	}
	for _, f := range decorFields {
		all += dv.FieldByName(f).String()
	}
	boxless := b2i(decorBoxless(dv))
	return M{"boxless": boxless, "empty": b2i(all == "" && boxless == 0), "g": g}
}

// decorField finds the decoration a text wrapper holds: the field of type decoration.Decoration, whatever its name
// (reading an unexported field through reflection is permitted).
func decorField(tt *texttable.TextTable) reflect.Value {
	v := reflect.ValueOf(tt).Elem()
	want := reflect.TypeOf(decoration.Decoration{})
	for i := 0; i < v.NumField(); i++ {
		if v.Type().Field(i).Type == want {
			return v.Field(i)
		}
		if v.Type().Field(i).Type == reflect.PtrTo(want) && !v.Field(i).IsNil() {
			return v.Field(i).Elem()
		}
	}
	derr("the text wrapper holds no field of type decoration.Decoration")
	return reflect.Value{}
}

// decorBoxless: the decoration's private "no box at all" flag (its only bool field, whatever its name); a
// decoration without such a flag is boxless if it is not the empty decoration and draws nothing.
func decorBoxless(dv reflect.Value) bool {
	for i := 0; i < dv.NumField(); i++ {
		if dv.Field(i).Kind() == reflect.Bool {
			return dv.Field(i).Bool()
		}
	}
	return false
}

func allEmpty(g M) bool {
	for _, v := range g {
		if v.(string) != "" {
			return false
		}
	}
	return true
}

func (w *world) wrapperOf(id int) *wrapper {
	if id < 1 || id > len(w.wrappers) {
		derr("no wrapper %d", id)
	}
	return w.wrappers[id-1]
}

func (w *world) execRender(op M) bool {
	switch opStr(op, "op") {
	case "wrap":
		var over tabular.Table
		var core int
		o := opMap(op, "over")
		if _, ok := o["w"]; ok {
			ow := w.wrapperOf(opInt(o, "w"))
			over, core = ow.rt, ow.over
		} else {
			core = opInt(o, "t")
			over = w.table(core)
		}
		rt := wrapKind(opStr(op, "kind"), opStrDef(op, "style", ""), over)
		w.wrappers = append(w.wrappers, &wrapper{kind: kindOf(rt), rt: rt, over: core, decor: "default"})
		op["rkind"] = kindOf(rt)
		if d := decorOfWrapper(rt); d != nil {
			op["dec"] = d
		}
	case "decor":
		wr := w.wrapperOf(opInt(op, "w"))
		tt, ok := wr.rt.(*texttable.TextTable)
		if !ok {
			derr("decor on %s wrapper", wr.kind)
		}
		if _, ok := op["custom"]; ok {
			d := customDecoration(opMap(op, "custom"))
			tt.SetDecoration(d)
			op["dec"] = decorObs(d)
		} else {
			name := opStr(op, "name")
			_, err := tt.SetDecorationNamed(name)
			op["dec"] = decorObs(decoration.Named(name))
			w.lastRes = M{"err": b2i(err != nil)}
		}
	case "regdecor":
		// registers a custom decoration under a name in the process-global registry
		d := customDecoration(opMap(op, "custom"))
		decoration.RegisterDecorationName(opStr(op, "name"), d)
		op["dec"] = decorObs(d)
	case "htmlopts":
		wr := w.wrapperOf(opInt(op, "w"))
		ht, ok := wr.rt.(*html.HTMLTable)
		if !ok {
			derr("htmlopts on %s wrapper", wr.kind)
		}
		ht.Id, ht.Class, ht.Caption = opStr(op, "id"), opStr(op, "class"), opStr(op, "caption")
		if opIntDef(op, "gen", 0) == 0 {
			wr.gen = nil
			ht.SetRowClassGenerator(nil, nil)
		} else {
			g := &genRec{}
			for _, v := range opList(op, "genvals") {
				g.vals = append(g.vals, v.(string))
			}
			wr.gen = g
			ht.SetRowClassGenerator(func(rowNum int, ctx interface{}) template.HTMLAttr {
				gr := ctx.(*genRec)
				gr.calls = append(gr.calls, rowNum)
				if len(gr.vals) == 0 {
					return ""
				}
				return template.HTMLAttr(gr.vals[rowNum%len(gr.vals)])
			}, g)
		}
	case "render":
		w.lastRes = w.doRender(op)
	default:
		return w.execRender2(op)
	}
	return true
}

// renderTarget resolves the three ways of asking for a render: through a
// wrapper object of the scenario, through a sub-package's package-level
// function on a table, or through the auto package with a style string.
type renderTarget struct {
	probe    interface{}
	kind     string
	render   func() (string, error)
	renderTo func(io.Writer) error
	wr       *wrapper
	tbl      int // the table rendered, when the operation names it directly (0: the scenario's first table)
}

func (w *world) target(op M) renderTarget {
	tg := w.target0(op)
	if _, ok := op["t"]; ok {
		if _, isw := op["w"]; !isw {
			tg.tbl = opInt(op, "t")
		}
	}
	return tg
}

func (w *world) target0(op M) renderTarget {
	if _, ok := op["w"]; ok {
		wr := w.wrapperOf(opInt(op, "w"))
		return renderTarget{kind: wr.kind, render: wr.rt.Render, renderTo: wr.rt.RenderTo, wr: wr}
	}
	var t tabular.Table
	if _, ok := op["ow"]; ok {
		t = w.wrapperOf(opInt(op, "ow")).rt
	} else {
		t = w.table(opInt(op, "t"))
	}
	if _, ok := op["auto"]; ok {
		style := opStr(op, "auto")
		probe := auto.Wrap(tabular.New(), style)
		return renderTarget{kind: kindOf(probe), probe: probe,
			render:   func() (string, error) { return auto.Render(t, style) },
			renderTo: func(wr io.Writer) error { return auto.RenderTo(t, wr, style) }}
	}
	switch pkg := opStr(op, "pkg"); pkg {
	case "text":
		return renderTarget{kind: pkg, probe: texttable.Wrap(tabular.New()), render: func() (string, error) { return texttable.Render(t) },
			renderTo: func(wr io.Writer) error { return texttable.RenderTo(t, wr) }}
	case "csv":
		return renderTarget{kind: pkg, render: func() (string, error) { return csv.Render(t) },
			renderTo: func(wr io.Writer) error { return csv.RenderTo(t, wr) }}
	case "json":
		return renderTarget{kind: pkg, render: func() (string, error) { return tjson.Render(t) },
			renderTo: func(wr io.Writer) error { return tjson.RenderTo(t, wr) }}
	case "md":
		return renderTarget{kind: pkg, render: func() (string, error) { return markdown.Render(t) },
			renderTo: func(wr io.Writer) error { return markdown.RenderTo(t, wr) }}
	case "html":
		return renderTarget{kind: pkg, render: func() (string, error) { return html.Wrap(t).Render() },
			renderTo: func(wr io.Writer) error { return html.Wrap(t).RenderTo(wr) }}
	default:
		derr("render pkg %q", pkg)
	}
	return renderTarget{}
}

type sink struct{ b []byte }

func (s *sink) Write(p []byte) (int, error) { s.b = append(s.b, p...); return len(p), nil }

// callRender performs the render under recover and reports (status, text, error text).
func callRender(tg renderTarget, entry string) (status, text string) {
	defer func() {
		if r := recover(); r != nil {
			mustBeLibrary(r, "render")
			status, text = "panic", fmt.Sprint(r)
		}
	}()
	switch entry {
	case "Render":
		s, err := tg.render()
		if err != nil {
			return "error", s
		}
		return "ok", s
	case "RenderTo":
		sk := &sink{}
		err := tg.renderTo(sk)
		if err != nil {
			return "error", string(sk.b)
		}
		return "ok", string(sk.b)
	}
	derr("entry %q", entry)
	return
}

func (w *world) doRender(op M) M {
	tg := w.target(op)
	if tg.wr == nil {
		// package-level and auto renders: format and decoration of a probe wrapper
		op["rkind"] = tg.kind
		if tg.probe != nil {
			if d := decorOfWrapper(tg.probe); d != nil {
				op["dec"] = d
			}
		}
	}
	if tg.wr != nil && tg.wr.gen != nil {
		tg.wr.gen.calls = nil
	}
	entry := opStrDef(op, "entry", "Render")
	status, text := callRender(tg, entry)
	if w.recordRaw || w.soloOutputs != nil {
		val := status + "\x00" + text
		if status != "ok" {
			val = status
		}
		if w.recordRaw {
			w.rawOutputs = append(w.rawOutputs, val)
		} else {
			ok := w.nrender < len(w.soloOutputs) && w.soloOutputs[w.nrender] == val
			w.soloEqual = append(w.soloEqual, ok)
		}
		w.nrender++
	} else {
		renderCalls.Add(1)
	}
	res := M{"fmt": tg.kind, "status": status, "empty": b2i(text == ""), "entry": entry}
	if status == "panic" {
		res["panic"] = text
		return res
	}
	if status == "error" && entry == "RenderTo" {
		// what RenderTo wrote before failing is not constrained here (C15 looks at it)
		return res
	}
	if tg.wr != nil {
		if d := decorOfWrapper(tg.wr.rt); d != nil {
			res["dec"] = d
		}
	}
	if w.soloOutputs != nil {
		res["solo"] = b2i(w.soloEqual[len(w.soloEqual)-1])
	}
	if w.facets["same"] {
		res["same"] = w.sameAsReference(op, tg, status, text)
	}
	if w.facets["rep"] {
		res["rep"] = w.repeatCheck(op, tg, status, text)
	}
	if status == "ok" {
		switch tg.kind {
		case "text":
			res["lines"] = lexText(text)
		case "csv":
			if bytesMode {
				res["bytes"] = latin1(text)
			} else {
				res["bytes"] = text
			}
		case "html":
			toks := lexHTML(text)
			res["toks"] = toks
			res["xmlok"] = xmlCrossCheck(text, toks)
			if tg.wr != nil && tg.wr.gen != nil {
				res["gencalls"] = orEmpty(tg.wr.gen.calls)
			}
		case "json":
			res["json"] = lexJSON(text)
		case "md":
			res["md"] = lexMarkdown(text)
		}
	}
	return res
}

// lexText: the output split at line feeds, each line with the library's own
// display-width measure; "nl" says whether the text ended with a line feed.
func lexText(s string) M {
	lines := []interface{}{}
	start := 0
	for i := 0; i < len(s); i++ {
		if s[i] == '\n' {
			l := s[start:i]
			lines = append(lines, []interface{}{l, length.StringCells(l)})
			start = i + 1
		}
	}
	rest := s[start:]
	return M{"l": lines, "rest": rest}
}

func sortedKeys(m M) []string {
	ks := make([]string, 0, len(m))
	for k := range m {
		ks = append(ks, k)
	}
	sort.Strings(ks)
	return ks
}

// ---- C10: the same content built on a core table and rendered by the format's own wrapper ----

var buildOps = map[string]bool{"headers": true, "rowitems": true, "sep": true, "appendrow": true, "newrow": true,
	"rowadd": true, "addrow": true, "setprop": true, "mutate": true, "update": true, "rowerr": true, "tblerr": true,
	"copycell": true, "takecol": true, "rowaddcell": true}

func cloneJSON(v interface{}) interface{} {
	switch x := v.(type) {
	case map[string]interface{}:
		m := M{}
		for k, e := range x {
			m[k] = cloneJSON(e)
		}
		return m
	case []interface{}:
		l := make([]interface{}, len(x))
		for i, e := range x {
			l[i] = cloneJSON(e)
		}
		return l
	}
	return v
}

// referenceOutput rebuilds the content of the scenario's (single) table on a
// fresh core table and renders it through the format's own Wrap(...).Render().
func (w *world) referenceOutput(tg renderTarget, h M) (status, text string) {
	ref := newWorld()
	ref.facets = map[string]bool{}
	ref.exec(M{"op": "newtable", "via": "core"})
	nt := 0
	for _, op := range w.history {
		if opStr(op, "op") == "newtable" {
			if nt++; nt > 1 {
				// a scenario with further tables: the build operations name their table by index
				ref.exec(M{"op": "newtable", "via": "core"})
			}
		}
	}
	for _, op := range w.history {
		if buildOps[opStr(op, "op")] {
			ref.exec(cloneJSON(op).(map[string]interface{}))
		}
	}
	if tg.tbl > 1 {
		return freshRender(tg, ref.table(tg.tbl))
	}
	return freshRender(tg, ref.table(1))
}

// freshRender renders table t through a brand-new wrapper of the target's format, with the target's
// decoration / html options.
func freshRender(tg renderTarget, t tabular.Table) (status, text string) {
	var rt renderTable
	switch tg.kind {
	case "text":
		tt := texttable.Wrap(t)
		src := tg.probe
		if tg.wr != nil {
			src = tg.wr.rt
		}
		if st, ok := src.(*texttable.TextTable); ok {
			// same decoration as the wrapper under test (copied field by field)
			dv := decorField(st)
			var d decoration.Decoration
			nv := reflect.ValueOf(&d).Elem()
			for _, f := range decorFields {
				nv.FieldByName(f).SetString(dv.FieldByName(f).String())
			}
			if decorBoxless(dv) {
				d = decoration.NoBox()
			}
			tt.SetDecoration(d)
		}
		rt = tt
	case "csv":
		rt = csv.Wrap(t)
	case "json":
		rt = tjson.Wrap(t)
	case "md":
		rt = markdown.Wrap(t)
	case "html":
		ht := html.Wrap(t)
		if tg.wr != nil {
			if src, ok := tg.wr.rt.(*html.HTMLTable); ok {
				ht.Id, ht.Class, ht.Caption = src.Id, src.Class, src.Caption
			}
			if tg.wr.gen != nil {
				g := &genRec{vals: tg.wr.gen.vals}
				ht.SetRowClassGenerator(func(rowNum int, ctx interface{}) template.HTMLAttr {
					gr := ctx.(*genRec)
					if len(gr.vals) == 0 {
						return ""
					}
					return template.HTMLAttr(gr.vals[rowNum%len(gr.vals)])
				}, g)
			}
		}
		rt = ht
	default:
		derr("referenceOutput: kind %q", tg.kind)
	}
	return callRender(renderTarget{kind: tg.kind, render: rt.Render, renderTo: rt.RenderTo}, "Render")
}

func (w *world) sameAsReference(op M, tg renderTarget, status, text string) M {
	rs, rtxt := w.referenceOutput(tg, nil)
	if status == "error" {
		text = "" // what a failing RenderTo wrote is not compared
	}
	if rs == "error" {
		rtxt = ""
	}
	return M{"match": b2i(rs == status && rtxt == text), "refstatus": rs, "reflen": len(rtxt), "len": len(text)}
}

// coreTableOf: the core table a render call works on.
func (w *world) coreTableOf(op M, tg renderTarget) tabular.Table {
	if tg.wr != nil {
		return w.atables[tg.wr.over-1]
	}
	if _, ok := op["ow"]; ok {
		return w.atables[w.wrapperOf(opInt(op, "ow")).over-1]
	}
	if _, ok := op["t"]; ok {
		return w.atables[opInt(op, "t")-1]
	}
	return nil
}

// ---- C14: the same bytes as the first time -------------------------------------------------------

func (w *world) repeatCheck(op M, tg renderTarget, status, text string) M {
	key := fmt.Sprintf("%d|%s", w.version, tg.kind)
	if tbl := w.coreTableOf(op, tg); tbl != nil {
		for i, t := range w.atables {
			if t == tbl {
				key += fmt.Sprintf("|t%d", i+1)
			}
		}
	}
	src := tg.probe
	if tg.wr != nil {
		src = tg.wr.rt
		if ht, ok := src.(*html.HTMLTable); ok {
			key += fmt.Sprintf("|%q|%q|%q", ht.Id, ht.Class, ht.Caption)
			if tg.wr.gen != nil {
				key += fmt.Sprintf("|%q", tg.wr.gen.vals)
			}
		}
	}
	if d := decorOfWrapper(src); d != nil {
		key += fmt.Sprintf("|%v", d)
	}
	val := status + "\x00" + text
	if status == "error" {
		val = status
	}
	// ... and the same bytes as a brand-new wrapper of that format and decoration gives for this very table
	// (rendering in any order: a first-time render through a fresh wrapper is one more render of the sequence)
	fresh := 1
	if tbl := w.coreTableOf(op, tg); tbl != nil {
		fs, ft := freshRender(tg, tbl)
		fv := fs + "\x00" + ft
		if fs == "error" {
			fv = fs
		}
		fresh = b2i(fv == val)
	}
	if prev, ok := w.first[key]; ok {
		return M{"seen": 1, "equal": b2i(prev == val), "fresh": fresh}
	}
	w.first[key] = val
	return M{"seen": 0, "equal": 1, "fresh": fresh}
}
