"""Per-property plans: which bounded models, generators, facets."""
import json
import random

import gens


def own_facet(plan, rec):
    """A check looks only at its own facets (DESIGN 4.3)."""
    f = rec.get("facet")
    if f in ("obspanic", "res.panic"):
        return True
    return f in plan.get("own", plan["facets"].split(","))


def _diffkeys(a, b):
    if isinstance(a, dict) and isinstance(b, dict):
        return sorted(k for k in set(a) | set(b) if a.get(k) != b.get(k))
    if isinstance(a, list) and isinstance(b, list) and len(a) == len(b) and a and all(isinstance(x, dict) for x in a + b):
        ks = set()
        for x, y in zip(a, b):
            ks |= set(_diffkeys(x, y))
        return sorted(ks)
    return []


def signature(plan, rec):
    d = rec.get("detail", {}) or {}
    extra = ()
    if isinstance(d, dict) and "exp" in d and "obs" in d:
        extra = tuple(_diffkeys(d["exp"], d["obs"]))
    elif isinstance(d, dict) and d.get("hint"):
        extra = (json.dumps(d["hint"])[:120],)
    return (rec.get("facet"), rec.get("op")) + extra


PLANS = {}

PLANS["C02"] = {
    "facets": "grid",
    "own": ["grid", "drows"],
    "mc": [{
        "module": "MCGrid",
        "quick": dict(MaxRows=3, MaxCells=2, MaxLate=1, MaxDetached=1, MaxHdr=2, MaxHist=6),
        "thorough": dict(MaxRows=4, MaxCells=2, MaxLate=2, MaxDetached=2, MaxHdr=2, MaxHist=8),
        "properties": ["RowsAppendOnly"],
    }],
    "random": [{"gen": gens.gen_grid}],
    "min_scenarios": {"quick": 1000, "thorough": 10000},
    "assumptions": [
        "the Go driver's projection of the table through the public API (obs.go: obsGrid) is faithful",
        "header replacement: the column count never shrinks (DESIGN 4.5)",
        "the same row object is never added to a table twice (not generated)",
    ],
}

PLANS["C18"] = {
    "facets": "none",
    "own": ["res.metrics"],
    "mc": [{
        "module": "MCMetrics",
        "quick": dict(MaxLen=5),
        "thorough": dict(MaxLen=7),
        "subst": {"quick": [{"n": 1}, {"n": 2}], "thorough": [{"n": k} for k in range(1, 9)]},
    }],
    "random": [{"gen": gens.gen_metrics}],
    "min_scenarios": {"quick": 1000, "thorough": 20000},
    "assumptions": [
        "display width is the library's own measure (logged, not modelled)",
        "the driver's tokenisation (chunks free of line feeds joined with line feeds) is faithful",
    ],
}

PLANS["C01"] = {
    "facets": "text",
    "mc": [{
        "module": "MCItems",
        "quick": dict(MaxHist=6),
        "thorough": dict(MaxHist=6),
        "properties": ["TextStable"],
        "subst": {"quick": [{"n": 1}, {"n": 2}], "thorough": [{"n": k} for k in range(1, 21)]},
    }],
    "random": [{"gen": gens.gen_items}],
    "min_scenarios": {"quick": 500, "thorough": 5000},
    "assumptions": [
        "the dispatch depends only on (kind, capability set); all 32 capability sets and all kinds are enumerated, the space of dynamic Go types is sampled",
        "for the last arm the oracle is fmt's %v itself (logged by the driver), as the statement names it",
        "the static table of which pool values offer String/Error (items.go: otherCaps) is right",
    ],
}

PLANS["C11"] = {
    "facets": "errs",
    "mc": [
        {"module": "MCErrors",
         "quick": dict(Family="ec", MaxHist=6, MaxEc=2, MaxRowsE=2, MaxCbs=1),
         "thorough": dict(Family="ec", MaxHist=7, MaxEc=3, MaxRowsE=2, MaxCbs=1),
         "properties": ["ErrsAppendOnly"]},
        {"module": "MCErrors",
         "quick": dict(Family="tbl", MaxHist=6, MaxEc=0, MaxRowsE=2, MaxCbs=1),
         "thorough": dict(Family="tbl", MaxHist=8, MaxEc=0, MaxRowsE=2, MaxCbs=2),
         "properties": ["ErrsAppendOnly"]},
    ],
    "random": [{"gen": gens.gen_errors}],
    "min_scenarios": {"quick": 5000, "thorough": 50000},
    "assumptions": [
        "every error the driver creates is a distinct object with a distinct id; errors created by the library itself are logged as LIB",
        "order is required only between errors of the same source (row, table, callback registration, container call)",
    ],
}

ALLOWN = '{"table", "row", "cell", "cellvar", "column", "handle"}'


class Raw(str):
    """A constant written into the cfg verbatim (TLA+ set/expression)."""


PLANS["C12"] = {
    "facets": "props",
    "own": ["props", "res.setprop"],
    "mc": [{
        "module": "MCProps",
        "quick": dict(OwnerKinds=Raw(ALLOWN), Keys=Raw('{"k_int", "k_int64"}'), Vals=Raw('{"v1", "v2", "nil"}'), MaxHist=6, MaxCopies=1),
        "thorough": dict(OwnerKinds=Raw(ALLOWN), Keys=Raw('{"k_int", "k_int64", "k_str"}'), Vals=Raw('{"v1", "v2", "nil"}'), MaxHist=6, MaxCopies=2),
        "properties": ["Independence"],
    }],
    "random": [{"gen": gens.gen_props}],
    "min_scenarios": {"quick": 5000, "thorough": 50000},
    "assumptions": [
        "key universe of the driver: int/int64/uint8/string/named string with equal values, two struct types with equal fields, two pointers to equal values, the library's own align and skipable keys",
        "chain length is read from the %#v debug form of cells (number of printed links)",
    ],
}


def _cbmc(shape, q, t):
    return {"module": "MCCallbacks",
            "quick": dict(Shape=shape, MaxCbs=q, MaxPasses=2),
            "thorough": dict(Shape=shape, MaxCbs=t, MaxPasses=2)}


PLANS["C13"] = {
    "facets": "props",
    "own": ["props", "res.cblog", "res.regerr"],
    "mc": [_cbmc("empty", 2, 2), _cbmc("hdr", 1, 2), _cbmc("one", 2, 2), _cbmc("built", 1, 2), _cbmc("full", 1, 2)],
    "random": [{"gen": gens.gen_callbacks}],
    "min_scenarios": {"quick": 3000, "thorough": 50000},
    "assumptions": [
        "events on which the statement is silent (header row, column 0, separators, add-time events of AddHeaders and of late cells, (time,target) pairs no slot mentions) are optional: at most once, in slot order",
        "the recording callback identifies its target by pointer identity through the public API after the call returns",
    ],
}


def _textmc(cells, rows, cols, aligns, decors, hdr):
    return dict(CellNames=Raw(cells), MaxCols=cols, MaxRows=rows, AlignVals=Raw(aligns), DecorNames=Raw(decors), HdrChoices=Raw(hdr))


PLANS["C03"] = {
    "facets": "none",
    "own": ["out.text", "out.errtext"],
    "mc": [{
        "module": "MCText",
        "quick": _textmc('{"e", "a", "m"}', 2, 2, "{}", '{"default", "none"}', "{0, 1, 2}"),
        "thorough": _textmc('{"e", "a", "w", "m"}', 3, 2, "{}", '{"default", "none"}', "{0, 1, 2}"),
        "subst": {"quick": [{"n": 1}], "thorough": [{"n": 1}, {"n": 2}]},
    }],
    "random": [{"gen": gens.gen_text}],
    "min_scenarios": {"quick": 3000, "thorough": 50000},
    "assumptions": [
        "display width is the library's own measure of each text line and of each output line (logged)",
        "glyphs of a decoration are one cell wide (documented contract; generated custom glyphs are)",
        "a header with zero cells still makes a header block of one (blank) line",
    ],
}

PLANS["C04"] = {
    "facets": "none",
    "own": ["out.text", "out.errtext"],
    "mc": [{
        "module": "MCText",
        "quick": _textmc('{"a", "m", "W5", "H3"}', 1, 2, '{"vL", "vR", "vC"}', '{"default"}', "{1}"),
        "thorough": _textmc('{"a", "m", "W5", "W1", "H3", "H1"}', 1, 2, '{"vL", "vR", "vC"}', '{"default", "none"}', "{2}"),
        "subst": {"quick": [{"n": 1}], "thorough": [{"n": 1}]},
    }],
    "random": [{"gen": gens.gen_text_sized}],
    "min_scenarios": {"quick": 3000, "thorough": 50000},
    "assumptions": [
        "multi-line items that also declare a width are not generated (the statement speaks of single-line items only)",
        "alignment values are the library's Left/Right/Center (other values make the library panic by design: TestingInvalidAlignment)",
    ],
}
