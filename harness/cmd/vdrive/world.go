package main

import (
	"bufio"
	"encoding/json"
	"fmt"
	"hash/crc32"
	"math/rand"
	"runtime"
	"runtime/debug"
	"strconv"
	"strings"

	"go.pennock.tech/tabular"
	"go.pennock.tech/tabular/texttable"
	"go.pennock.tech/tabular/texttable/decoration"
)

// registrySnapshot: the built-in decoration names and what they denote in this
// process at this moment (logged input of the scenario: the registry is global).
func registrySnapshot() []interface{} {
	out := []interface{}{}
	for _, n := range []string{"ascii-simple", "none", "utf8-light", "utf8-light-curved", "utf8-heavy", "utf8-double"} {
		out = append(out, []interface{}{n, decorObs(decoration.Named(n))})
	}
	return out
}

// world holds the objects of one scenario. Ids are 1-based and allotted in
// creation order per kind, exactly as the specification allots them.
type world struct {
	tables   []tabular.Table   // core tables (the *ATable), by table id
	atables  []*tabular.ATable // same, concrete
	hdrItems [][]interface{}   // original header items per table
	rows     []*tabular.Row
	rowItems [][]interface{} // original items per row, by cell index
	rowOf    map[*tabular.Row]int
	wrappers []*wrapper
	ecs      []*tabular.ErrorContainer
	errs     map[error]string
	sentinel error // the one error value returned by every callback registered with fails = 2
	cbs      []*recCB
	cblog    []interface{}
	cbraw    []cbEvent
	handles  []tabular.PropertyOwner // column handles (C12)
	cellvars []*tabular.Cell         // by-value copies of cells (C12)
	items    []interface{}           // every item created, for mutate
	lastRes  M                       // result of the last op (op-specific observations)
	markKeys []interface{}
	first    map[string]string // C14: first output per key
	history  []M               // ops executed so far (for the reference rebuild of C10)
	salt     int               // per-scenario salt (from its id) for choices that must repeat when the scenario is re-run alone
	version  int               // bumped by every op that may change a table (C14 key)
	facets   map[string]bool

	// conc mode (C16)
	recordRaw   bool
	rawOutputs  []string
	soloOutputs []string
	nrender     int
	soloEqual   []bool
	jitter      *rand.Rand
}

func newWorld() *world {
	return &world{rowOf: map[*tabular.Row]int{}, errs: map[error]string{}, first: map[string]string{}}
}

type idErr struct{ id string }

func (e *idErr) Error() string { return "verif error " + e.id }

func (w *world) newErr(id string) error {
	e := &idErr{id}
	w.errs[e] = id
	return e
}

func (w *world) errID(e error) string {
	if e == nil {
		return "nil"
	}
	if id, ok := w.errs[e]; ok {
		return id
	}
	if ie, ok := e.(*idErr); ok {
		return ie.id
	}
	return "LIB"
}

func (w *world) errIDs(es []error) []interface{} {
	out := make([]interface{}, 0, len(es))
	for _, e := range es {
		out = append(out, w.errID(e))
	}
	return out
}

// ---- op field access -------------------------------------------------------

func opInt(op M, k string) int {
	v, ok := op[k]
	if !ok {
		panic(fmt.Sprintf("op %v lacks field %q", op["op"], k))
	}
	switch x := v.(type) {
	case json.Number:
		n, err := strconv.Atoi(string(x))
		if err != nil {
			panic(err)
		}
		return n
	case float64:
		return int(x)
	case int:
		return x
	}
	panic(fmt.Sprintf("op field %q is %T", k, v))
}

func opIntDef(op M, k string, def int) int {
	if _, ok := op[k]; !ok {
		return def
	}
	return opInt(op, k)
}

func opStr(op M, k string) string {
	v, ok := op[k]
	if !ok {
		panic(fmt.Sprintf("op %v lacks field %q", op["op"], k))
	}
	s, ok := v.(string)
	if !ok {
		panic(fmt.Sprintf("op field %q is %T", k, v))
	}
	return s
}

func opStrDef(op M, k, def string) string {
	if _, ok := op[k]; !ok {
		return def
	}
	return opStr(op, k)
}

func opList(op M, k string) []interface{} {
	v, ok := op[k]
	if !ok {
		panic(fmt.Sprintf("op %v lacks field %q", op["op"], k))
	}
	l, ok := v.([]interface{})
	if !ok {
		panic(fmt.Sprintf("op field %q is %T", k, v))
	}
	return l
}

func opMap(op M, k string) M {
	v, ok := op[k]
	if !ok {
		panic(fmt.Sprintf("op %v lacks field %q", op["op"], k))
	}
	m, ok := v.(map[string]interface{})
	if !ok {
		panic(fmt.Sprintf("op field %q is %T", k, v))
	}
	return m
}

// ---- scenario execution ----------------------------------------------------

type driverPanic struct{ v interface{} }

func runScenario(out *bufio.Writer, id string, ops []M, facets map[string]bool, every bool, sub *substitution) {
	runScenarioIn(newWorld(), out, id, ops, facets, every, sub)
}

func runScenarioIn(w *world, out *bufio.Writer, id string, ops []M, facets map[string]bool, every bool, sub *substitution) {
	w.facets = facets
	w.salt = int(crc32.ChecksumIEEE([]byte(id)) % 1000)
	writeLine(out, M{"op": M{"op": "reset", "id": id, "reg": registrySnapshot(), "defdec": decorOfWrapper(texttable.New())}})
	for i, op := range ops {
		if sub != nil {
			sub.applyOp(op)
		}
		last := i == len(ops)-1
		line := M{}
		func() {
			defer func() {
				if r := recover(); r != nil {
					mustBeLibrary(r, fmt.Sprintf("scenario %s op %d (%v)", id, i+1, op["op"]))
					// A panic escaping a library call: logged as the op's status.
					w.lastRes = M{"panic": fmt.Sprint(r)}
				}
			}()
			w.lastRes = nil
			w.cblog = nil
			w.cbraw = nil
			if w.jitter != nil && w.jitter.Intn(3) == 0 {
				runtime.Gosched()
			}
			switch opStr(op, "op") {
			case "render", "renderall", "faultsweep", "wrap", "decor", "htmlopts", "regdecor", "snapshot", "nop", "autonew", "liststyles", "measure", "within", "rowlines", "emitter":
				// (these leave every table as it is: renders before and after them are renders of the same
				// table, and must agree -- the wrapper's own settings are part of the comparison key)
			default:
				w.version++
			}
			w.exec(op)
			w.history = append(w.history, op)
		}()
		w.resolveCbLog()
		if len(w.cbs) > 0 {
			// the callback events of this call (always logged once a callback exists)
			if w.lastRes == nil {
				w.lastRes = M{}
			}
			w.lastRes["cblog"] = orEmpty(w.cblog)
		}
		line["op"] = op
		obs := M{}
		if w.lastRes != nil {
			obs["res"] = w.lastRes
		}
		if every || last {
			func() {
				defer func() {
					if r := recover(); r != nil {
						mustBeLibrary(r, fmt.Sprintf("scenario %s op %d (observation)", id, i+1))
						obs["obspanic"] = fmt.Sprint(r)
					}
				}()
				w.observe(obs, facets, op)
			}()
		}
		if len(obs) > 0 {
			line["obs"] = obs
		}
		writeLine(out, line)
	}
}

// libraryPanic is called while recovering: it reports whether the panic was raised inside the library (or in
// the standard library on the library's behalf). A panic raised by this driver's own code -- an index into its
// own tables, a malformed scenario -- is a failure of the machinery, never an observation about the library.
func libraryPanic(r interface{}) bool {
	if _, ok := r.(driverPanic); ok {
		return false
	}
	st := string(debug.Stack())
	i := strings.Index(st, "\npanic(")
	if i < 0 {
		return true
	}
	lines := strings.Split(st[i+1:], "\n")
	for _, ln := range lines[1:] {
		if strings.HasPrefix(ln, "\t") {
			continue
		}
		if strings.HasPrefix(ln, "go.pennock.tech/tabular") {
			return true
		}
		if strings.HasPrefix(ln, "main.") {
			return false
		}
	}
	return true
}

// mustBeLibrary aborts the driver (exit 2) for a recovered panic of its own.
func mustBeLibrary(r interface{}, where string) {
	if _, ok := r.(driverPanic); !ok && !libraryPanic(r) {
		if _, ok := r.(runtime.Error); ok {
			// A run-time error in the driver's own code right after a library call (an index into what AllRows
			// returned, a nil it was handed): the library did not keep a post-condition the driver relies on --
			// on the unchanged library no scenario does this. It is logged like a panic of the call; the
			// validator sees it.
			return
		}
	}
	if !libraryPanic(r) {
		if dp, ok := r.(driverPanic); ok {
			r = dp.v
		}
		fatal(fmt.Errorf("%s: driver error: %v\n%s", where, r, debug.Stack()))
	}
}

func derr(format string, a ...interface{}) {
	panic(driverPanic{fmt.Sprintf(format, a...)})
}

func (w *world) table(id int) tabular.Table {
	if id < 1 || id > len(w.tables) {
		derr("no table %d", id)
	}
	return w.tables[id-1]
}

func (w *world) row(id int) *tabular.Row {
	if id < 1 || id > len(w.rows) {
		derr("no row %d", id)
	}
	return w.rows[id-1]
}

func (w *world) addRowObj(r *tabular.Row, items []interface{}) int {
	w.rows = append(w.rows, r)
	w.rowItems = append(w.rowItems, items)
	w.rowOf[r] = len(w.rows)
	return len(w.rows)
}

func (w *world) exec(op M) {
	switch opStr(op, "op") {
	case "newtable":
		w.opNewTable(op)
	case "headers":
		t := opInt(op, "t")
		items := w.mkItems(opList(op, "items"))
		w.hdrItems[t-1] = items
		w.table(t).AddHeaders(items...)
	case "rowitems":
		t := opInt(op, "t")
		items := w.mkItems(opList(op, "items"))
		tb := w.table(t)
		tb.AddRowItems(items...)
		rr := tb.AllRows()
		w.addRowObj(rr[len(rr)-1], items)
	case "sep":
		tb := w.table(opInt(op, "t"))
		tb.AddSeparator()
		rr := tb.AllRows()
		if len(rr) != tb.NRows() || len(rr) == 0 || !rr[len(rr)-1].IsSeparator() {
			// the library's row listing does not end in the separator just added (the grid facet, observed
			// next, shows that to the model): the driver's own book-keeping goes on with a stand-in row object
			w.addRowObj(tabular.NewRow(), nil)
			break
		}
		w.addRowObj(rr[len(rr)-1], nil)
	case "appendrow":
		r := w.table(opInt(op, "t")).AppendNewRow()
		w.addRowObj(r, nil)
	case "newrow":
		var r *tabular.Row
		switch opStr(op, "how") {
		case "sizedfor":
			r = w.table(opInt(op, "t")).NewRowSizedFor()
		case "new":
			r = tabular.NewRow()
		case "cap":
			r = tabular.NewRowWithCapacity(opInt(op, "cap"))
		default:
			derr("newrow how=%v", op["how"])
		}
		w.addRowObj(r, nil)
	case "rowadd":
		rid := opInt(op, "r")
		r := w.row(rid)
		it := w.mkItem(opMap(op, "item"))
		before := len(r.Cells())
		r.Add(tabular.NewCell(it))
		if len(r.Cells()) > before {
			w.rowItems[rid-1] = append(w.rowItems[rid-1], it)
		}
	case "rowaddcell":
		// Row.Add of a by-value copy of an existing cell (its item, properties and callbacks come along)
		rid := opInt(op, "r")
		r := w.row(rid)
		src := w.owner(opMap(op, "from")).(*tabular.Cell)
		before := len(r.Cells())
		r.Add(*src)
		if len(r.Cells()) > before {
			w.rowItems[rid-1] = append(w.rowItems[rid-1], src.Item())
		}
	case "addrow":
		w.table(opInt(op, "t")).AddRow(w.row(opInt(op, "r")))
	case "snapshot", "nop":
		// observation only
	default:
		if !w.execMore(op) {
			derr("unknown op %v", op["op"])
		}
	}
}

func (w *world) opNewTable(op M) {
	via := opStrDef(op, "via", "core")
	tb, wr := newTableVia(via, opStrDef(op, "style", ""))
	at := coreOf(tb)
	w.tables = append(w.tables, tb)
	w.atables = append(w.atables, at)
	w.hdrItems = append(w.hdrItems, nil)
	if wr != nil {
		wr.over = len(w.tables)
		w.wrappers = append(w.wrappers, wr)
		op["rkind"] = wr.kind
		if d := decorOfWrapper(wr.rt); d != nil {
			op["dec"] = d
		}
	}
}
