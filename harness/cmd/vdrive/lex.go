package main

import (
	"bytes"
	"encoding/json"
	"encoding/xml"
	"fmt"
	"html"
	"io"
	"strconv"
	"strings"
	"unicode/utf8"
)

// ---- HTML ------------------------------------------------------------------
//
// A strict tokenizer for the tiny HTML subset the renderer may emit:
//   <name( attr="value")*>   </name>   text
// Anything else that uses '<' (comments, doctype, unquoted or unterminated
// attribute values, stray '<') is an "invalid" token. Text that is only
// whitespace is dropped unless it sits directly inside th, td or caption.
// Tokens: ["open", name, [[attr, decodedValue]...]], ["close", name],
//         ["text", decoded], ["invalid", what]

func isNameByte(c byte) bool {
	return (c >= 'a' && c <= 'z') || (c >= 'A' && c <= 'Z') || (c >= '0' && c <= '9') || c == '-'
}

func lexHTML(s string) []interface{} {
	toks := []interface{}{}
	inCell := false // directly inside th/td/caption
	i := 0
	for i < len(s) {
		if s[i] != '<' {
			j := strings.IndexByte(s[i:], '<')
			var txt string
			if j < 0 {
				txt = s[i:]
				i = len(s)
			} else {
				txt = s[i : i+j]
				i += j
			}
			if inCell || strings.TrimSpace(txt) != "" {
				toks = append(toks, []interface{}{"text", html.UnescapeString(txt)})
			}
			continue
		}
		// a tag
		j := i + 1
		closing := false
		if j < len(s) && s[j] == '/' {
			closing = true
			j++
		}
		k := j
		for k < len(s) && isNameByte(s[k]) {
			k++
		}
		if k == j {
			toks = append(toks, []interface{}{"invalid", "stray <"})
			i++
			continue
		}
		name := strings.ToLower(s[j:k]) // tag names are case-insensitive
		if closing {
			for k < len(s) && s[k] == ' ' {
				k++ // "</td >" is a valid end tag
			}
			if k < len(s) && s[k] == '>' {
				toks = append(toks, []interface{}{"close", name})
				inCell = false
				i = k + 1
				continue
			}
			toks = append(toks, []interface{}{"invalid", "bad close tag"})
			i = k
			continue
		}
		attrs := []interface{}{}
		bad := ""
		for {
			if k >= len(s) {
				bad = "unterminated tag"
				break
			}
			if s[k] == '>' {
				k++
				break
			}
			if s[k] != ' ' {
				bad = "unexpected byte in tag"
				break
			}
			for k < len(s) && s[k] == ' ' {
				k++
			}
			if k < len(s) && s[k] == '>' {
				continue
			}
			a := k
			for k < len(s) && isNameByte(s[k]) {
				k++
			}
			if k == a || k+1 >= len(s) || s[k] != '=' || (s[k+1] != '"' && s[k+1] != '\'') {
				bad = "attribute without quoted value"
				break
			}
			an := strings.ToLower(s[a:k])
			quote := s[k+1]
			k += 2
			e := strings.IndexByte(s[k:], quote)
			if e < 0 {
				bad = "unterminated attribute value"
				break
			}
			attrs = append(attrs, []interface{}{an, html.UnescapeString(s[k : k+e])})
			k += e + 1
		}
		if bad != "" {
			toks = append(toks, []interface{}{"invalid", bad})
			i++
			continue
		}
		toks = append(toks, []interface{}{"open", name, attrs})
		inCell = name == "th" || name == "td" || name == "caption"
		i = k
	}
	return toks
}

// xmlCrossCheck reads the same output with encoding/xml's strict decoder (the
// renderer's output is also well-formed XML) and compares the token structure
// with lexHTML's: 1 = same, 0 = the two readers disagree (the hand-written
// tokenizer is then not to be trusted for this output), -1 = not comparable
// (characters or entities XML does not allow, or not well-formed XML).
func xmlCrossCheck(s string, toks []interface{}) int {
	for _, r := range s {
		if r < 0x20 && r != '\n' && r != '\t' && r != '\r' {
			return -1
		}
		if r == 0xFFFE || r == 0xFFFF || r == utf8.RuneError {
			return -1
		}
	}
	dec := xml.NewDecoder(strings.NewReader(s))
	dec.Strict = true
	var xt []interface{}
	inCell := false
	pendingText := ""
	flushText := func() {
		if pendingText != "" && (inCell || strings.TrimSpace(pendingText) != "") {
			xt = append(xt, []interface{}{"text", pendingText})
		}
		pendingText = ""
	}
	for {
		t, err := dec.Token()
		if err == io.EOF {
			break
		}
		if err != nil {
			return -1
		}
		switch e := t.(type) {
		case xml.StartElement:
			flushText()
			attrs := []interface{}{}
			for _, a := range e.Attr {
				attrs = append(attrs, []interface{}{a.Name.Local, a.Value})
			}
			xt = append(xt, []interface{}{"open", e.Name.Local, attrs})
			inCell = e.Name.Local == "th" || e.Name.Local == "td" || e.Name.Local == "caption"
		case xml.EndElement:
			flushText()
			xt = append(xt, []interface{}{"close", e.Name.Local})
			inCell = false
		case xml.CharData:
			pendingText += strings.ReplaceAll(string(e), "\r\n", "\n")
		default:
			return 0
		}
	}
	flushText()
	norm := func(v interface{}) string {
		b, _ := json.Marshal(v)
		return strings.ReplaceAll(strings.ReplaceAll(string(b), "\\r\\n", "\\n"), "\\r", "\\n")
	}
	if norm(xt) == norm(toks) {
		return 1
	}
	return 0
}

// ---- JSON ------------------------------------------------------------------
//
// lexJSON reads the output with encoding/json's streaming decoder:
//   valid  encoding/json accepts the whole text as one value
//   shape  the value is an array of objects (nothing else at top level)
//   rows   per object the list of [decoded key, canonical value] in order of
//          appearance (duplicates are therefore visible)

func canonJSON(raw []byte) string {
	dec := json.NewDecoder(bytes.NewReader(raw))
	dec.UseNumber()
	var v interface{}
	if err := dec.Decode(&v); err != nil {
		return "!" + string(raw)
	}
	b, err := json.Marshal(normNumbers(v))
	if err != nil {
		return "!" + string(raw)
	}
	return string(b)
}

// normNumbers rewrites every number to one spelling per value (3.250 = 3.25, 1E21 = 1e+21), keeping
// integers that do not fit a float64 exactly as they are written.
func normNumbers(v interface{}) interface{} {
	switch x := v.(type) {
	case json.Number:
		s := string(x)
		if !strings.ContainsAny(s, ".eE") {
			return x
		}
		if f, err := strconv.ParseFloat(s, 64); err == nil {
			return json.Number(strconv.FormatFloat(f, 'g', -1, 64))
		}
		return x
	case map[string]interface{}:
		for k, e := range x {
			x[k] = normNumbers(e)
		}
		return x
	case []interface{}:
		for i, e := range x {
			x[i] = normNumbers(e)
		}
		return x
	}
	return v
}

func lexJSON(s string) M {
	res := M{"valid": b2i(json.Valid([]byte(s))), "shape": 0, "rows": []interface{}{}}
	dec := json.NewDecoder(strings.NewReader(s))
	dec.UseNumber()
	tok, err := dec.Token()
	if err != nil || tok != json.Delim('[') {
		return res
	}
	rows := []interface{}{}
	for dec.More() {
		tok, err = dec.Token()
		if err != nil || tok != json.Delim('{') {
			return res
		}
		pairs := []interface{}{}
		for dec.More() {
			kt, err := dec.Token()
			if err != nil {
				return res
			}
			key, ok := kt.(string)
			if !ok {
				return res
			}
			var raw json.RawMessage
			if err := dec.Decode(&raw); err != nil {
				return res
			}
			pairs = append(pairs, []interface{}{key, canonJSON(raw)})
		}
		tok, err = dec.Token()
		if err != nil || tok != json.Delim('}') {
			return res
		}
		rows = append(rows, pairs)
	}
	tok, err = dec.Token()
	if err != nil || tok != json.Delim(']') {
		return res
	}
	if _, err = dec.Token(); err != io.EOF {
		return res
	}
	res["shape"] = 1
	res["rows"] = rows
	return res
}

// ---- Markdown ----------------------------------------------------------------
//
// lexMarkdown splits the output into lines (at LF) and every line at the pipes
// that are not preceded by a backslash. Per line: pre (text before the first
// pipe), post (text after the last pipe), npipes, and per cell
//   [raw, decoded (spaces trimmed, entities decoded), rawflag]
// where rawflag is 1 if the raw cell holds one of < > " ' or an '&' that does
// not start an entity. "rest" is whatever follows the last LF.

func splitPipes(line string) []string {
	var parts []string
	start := 0
	for i := 0; i < len(line); i++ {
		if line[i] == '|' && (i == 0 || line[i-1] != '\\') {
			parts = append(parts, line[start:i])
			start = i + 1
		}
	}
	parts = append(parts, line[start:])
	return parts
}

func hasRawMarkup(raw string) bool {
	if strings.ContainsAny(raw, "<>\"'") {
		return true
	}
	for i := 0; i < len(raw); i++ {
		if raw[i] != '&' {
			continue
		}
		semi := strings.IndexByte(raw[i:], ';')
		if semi < 0 {
			return true
		}
		ent := raw[i : i+semi+1]
		if html.UnescapeString(ent) == ent {
			return true
		}
	}
	return false
}

func lexMarkdown(s string) M {
	lines := []interface{}{}
	start := 0
	for i := 0; i < len(s); i++ {
		if s[i] != '\n' {
			continue
		}
		line := strings.TrimSuffix(s[start:i], "\r") // CRLF line ends are as good as LF
		start = i + 1
		parts := splitPipes(line)
		cells := []interface{}{}
		for _, p := range parts[1:max(1, len(parts)-1)] {
			tr := strings.Trim(p, " ")
			// GFM: inside a cell "\|" is an escaped pipe and reads as "|"
			unesc := strings.ReplaceAll(tr, "\\|", "|")
			ndash := strings.Count(p, "-")
			delimOnly := b2i(strings.Trim(p, " -:") == "" && strings.Trim(strings.Trim(tr, ":"), "-") == "")
			cells = append(cells, []interface{}{p, html.UnescapeString(unesc), b2i(hasRawMarkup(p)),
				ndash, b2i(strings.HasPrefix(tr, ":")), b2i(strings.HasSuffix(tr, ":") && len(tr) > 1), delimOnly})
		}
		post := ""
		if len(parts) > 1 {
			post = parts[len(parts)-1]
		}
		// up to three spaces of indentation do not change what the line is
		pre := parts[0]
		if len(pre) <= 3 && strings.Trim(pre, " ") == "" {
			pre = ""
		}
		lines = append(lines, M{"pre": pre, "post": strings.Trim(post, " "), "npipes": len(parts) - 1, "cells": cells})
	}
	return M{"lines": lines, "rest": s[start:]}
}

func max(a, b int) int {
	if a > b {
		return a
	}
	return b
}

// ---- self-tests of the lexers on hostile hand-made outputs --------------------

func runSelfTests(which string) int {
	fails := 0
	check := func(name string, ok bool) {
		if !ok {
			fails++
			fmt.Printf("SELFTEST FAIL %s\n", name)
		}
	}
	hasInvalidOrExtra := func(s string, wantOpens int) bool {
		opens := 0
		for _, t := range lexHTML(s) {
			tt := t.([]interface{})
			if tt[0] == "invalid" {
				return true
			}
			if tt[0] == "open" {
				opens++
			}
		}
		return opens != wantOpens
	}
	if which == "html" || which == "all" {
		check("html plain", !hasInvalidOrExtra(`<td>a &lt; b</td>`, 1))
		check("html injected tag", hasInvalidOrExtra(`<td><b>x</b></td>`, 1))
		check("html script", hasInvalidOrExtra(`<td><script>alert(1)</script></td>`, 1))
		check("html comment", hasInvalidOrExtra(`<td><!-- x --></td>`, 1))
		check("html stray lt", hasInvalidOrExtra(`<td>a < b</td>`, 1))
		check("html attr breakout", func() bool {
			toks := lexHTML(`<tr class="r0" onclick="x">`)
			if len(toks) != 1 {
				return true
			}
			at := toks[0].([]interface{})[2].([]interface{})
			return len(at) == 2 // the extra attribute is visible to the grammar
		}())
		check("html unquoted attr", hasInvalidOrExtra(`<tr class=x>`, 1))
		check("html text decode", func() bool {
			toks := lexHTML(`<td>&amp;amp; &#34;</td>`)
			return len(toks) == 3 && toks[1].([]interface{})[1] == `&amp; "`
		}())
		check("html ws text kept in cell", len(lexHTML("<td> </td>")) == 3)
		check("html ws text dropped outside", len(lexHTML("<tr> \n </tr>")) == 2)
	}
	if which == "json" || which == "all" {
		check("json trailing comma", lexJSON("[\n{\"a\": 1},\n\n]\n")["shape"] == 0)
		check("json ok", lexJSON("[\n{\"a\": 1},\n{\"a\": \"x\"}\n]\n")["shape"] == 1)
		check("json dup keys visible", len(lexJSON(`[{"a":1,"a":2}]`)["rows"].([]interface{})[0].([]interface{})) == 2)
		check("json trailing garbage", lexJSON(`[{"a":1}] x`)["shape"] == 0)
		check("json not array", lexJSON(`{"a":1}`)["shape"] == 0)
		check("json empty", lexJSON("[\n\n]\n")["shape"] == 1)
	}
	if which == "md" || which == "all" {
		l := lexMarkdown("| a | b\\|c |\n")["lines"].([]interface{})[0].(M)
		check("md escaped pipe", l["npipes"] == 3)
		l = lexMarkdown("| a|b | c |\n")["lines"].([]interface{})[0].(M)
		check("md raw pipe", l["npipes"] == 4)
		check("md raw lt", hasRawMarkup("a<b"))
		check("md bare amp", hasRawMarkup("a & b"))
		check("md entity ok", !hasRawMarkup("a &amp; b &#x7c; &#x0a;"))
		check("md fake entity", hasRawMarkup("&nosuchentity;"))
		check("md rest", lexMarkdown("| a |")["rest"] == "| a |")
	}
	if fails == 0 {
		fmt.Println("selftest ok")
		return 0
	}
	return 1
}
