--------------------------- MODULE RegistryTrace ---------------------------
(***************************************************************************)
(* Trace validation for the decoration registry (C17).                     *)
(*                                                                         *)
(* The log holds TWO lines per registry operation, "call" and "ret",       *)
(* stamped by one atomic clock of the driver immediately before the call   *)
(* and immediately after its return, and sorted by stamp.  Nothing inside  *)
(* the library is instrumented: the validator knows only the real-time     *)
(* order (A precedes B iff A returned before B was called), and lets the   *)
(* moment at which an operation takes effect be anywhere inside its        *)
(* interval -- an internal step of the specification, as in Registry.tla   *)
(* where the body step lies between lock and unlock.                       *)
(*                                                                         *)
(* What the property promises of an execution with overlapping calls is    *)
(* exactly what is checked (a "regular register" per name, no more):       *)
(*   lookup   the result is a decoration registered under that name by a   *)
(*            registration that did not begin after the lookup returned    *)
(*            and that had not been overwritten -- by a registration that  *)
(*            began after it returned and returned before the lookup was   *)
(*            called -- or, if no registration of the name returned before *)
(*            the lookup was called, possibly what the name denoted at the *)
(*            start (the empty decoration for a name never registered);    *)
(*            a lookup during which no registration of the name was in     *)
(*            progress settles which registration is the latest: every     *)
(*            later lookup must agree with it;                             *)
(*   listing  sorted, duplicate-free, contains every name whose first      *)
(*            registration returned before the listing was called and all  *)
(*            built-ins, and nothing that no registration begun before the *)
(*            listing returned could have put there.                       *)
(* With calls that do not overlap (the forced schedules generated from     *)
(* Registry.tla, and the quiescent read-back after every concurrent run)   *)
(* this is the sequential registry: the latest registration wins.  A lock, *)
(* a readers/writer lock, a copy-on-write map and a concurrent map all     *)
(* satisfy it; freedom from data races is the race detector's business.    *)
(*                                                                         *)
(* State: per name the registrations that a lookup called now could still  *)
(* see (live), the registrations in flight (open), and for every lookup or *)
(* listing in flight what it may return (grows when a registration is      *)
(* called during its interval).  No growing history is kept.               *)
(***************************************************************************)
EXTENDS Integers, Sequences, FiniteSets, TLC, Json, CSV

CONSTANTS TraceFile, MisFile
Trace == ndJsonDeserialize(TraceFile)

VARIABLES live,    \* [name -> set of [did, end]]: completed registrations not yet certainly overwritten
          open,    \* [goroutine -> [name, did, start]]: registrations called and not yet returned
          rd,      \* [goroutine -> [name, allowed]]: lookups in flight and what they may return
          ls,      \* [goroutine -> [must, may]]: listings in flight
          l, nmis, cnt
vars == <<live, open, rd, ls, l, nmis, cnt>>

Empty == "EMPTY"
Range(s) == {s[i] : i \in DOMAIN s}
Without(f, k) == [x \in (DOMAIN f) \ {k} |-> f[x]]
With(f, k, v) == [x \in (DOMAIN f) \cup {k} |-> IF x = k THEN v ELSE f[x]]
Bump(c, f) == With(c, f, (IF f \in DOMAIN c THEN c[f] ELSE 0) + 1)

Init == live = <<>> /\ open = <<>> /\ rd = <<>> /\ ls = <<>> /\ l = 1 /\ nmis = 0 /\ cnt = <<>>

\* what a lookup of n called now may see: the live registrations and those in flight;
\* a name with nothing live denotes the empty decoration
LiveDids(n) == IF n \in DOMAIN live THEN {x.did : x \in live[n]} ELSE {Empty}
OpenDids(n) == {open[g].did : g \in {h \in DOMAIN open : open[h].name = n}}
Known == DOMAIN live
OpenNames == {open[g].name : g \in DOMAIN open}

Bad(ev) ==
  CASE ev.ev = "ret" /\ ev.op = "named" -> ev.g \notin DOMAIN rd \/ ev.res \notin rd[ev.g].allowed
    [] ev.ev = "ret" /\ ev.op = "list" ->
         \/ ev.g \notin DOMAIN ls
         \/ ev.sorted # 1 \/ Len(ev.res) # Cardinality(Range(ev.res))
         \/ ~(ls[ev.g].must \subseteq Range(ev.res))
         \/ ~(Range(ev.res) \subseteq ls[ev.g].may)
    \* an override made before the registry was first read must be what the name denotes afterwards
    \* ... and the built-in names (ev.builtins: the documented six, a constant of the driver -- not taken on trust
    \* from the library's own listing) are there from the start, each denoting something
    [] ev.ev = "init" -> \/ ~(Range(ev.builtins) \subseteq {ev.names[i][1] : i \in DOMAIN ev.names})
                         \/ \E i \in DOMAIN ev.names : ev.names[i][1] \in Range(ev.builtins) /\ ev.names[i][2] = Empty
                         \/ ev.early # <<>> /\ \A i \in DOMAIN ev.names : ev.names[i][1] = ev.early[1] => ev.names[i][2] # ev.early[2]
    \* quiescent style listing (auto.ListStyles): sorted and showing every registered name and the four sub-packages
    \* a listing that was returned earlier has changed in its caller's hands
    [] ev.ev = "listchanged" -> TRUE
    [] ev.ev = "styles" -> ev.sorted # 1 \/ ~((Known \cup {"csv", "html", "json", "markdown"}) \subseteq Range(ev.res))
    [] OTHER -> FALSE

Facet(ev) == CASE ev.ev = "init" -> "reg.early" [] ev.ev = "styles" -> "reg.styles" [] OTHER -> "reg." \o ev.op

Hint(ev) ==
  CASE ev.ev = "ret" /\ ev.op = "named" /\ ev.g \in DOMAIN rd -> [allowed |-> rd[ev.g].allowed]
    [] ev.ev = "ret" /\ ev.op = "list" /\ ev.g \in DOMAIN ls ->
         [missing |-> ls[ev.g].must \ Range(ev.res), unexpected |-> Range(ev.res) \ ls[ev.g].may]
    [] OTHER -> <<>>

Done(n, c) == CSVWrite("%1$s", <<ToJson([done |-> TRUE, lines |-> Len(Trace), mismatches |-> n, compared |-> c])>>, MisFile)

Step(ev) ==
  CASE ev.ev = "init" ->
         /\ live' = [n \in {ev.names[i][1] : i \in DOMAIN ev.names} |->
                       {[did |-> ev.names[CHOOSE i \in DOMAIN ev.names : ev.names[i][1] = n][2], end |-> 0]}]
         /\ open' = <<>> /\ rd' = <<>> /\ ls' = <<>>
    [] ev.ev = "call" /\ ev.op = "register" ->
         /\ open' = With(open, ev.g, [name |-> ev.name, did |-> ev.did, start |-> ev.t])
         \* every lookup of that name and every listing in flight may see it from now on
         /\ rd' = [g \in DOMAIN rd |-> IF rd[g].name = ev.name
                                         THEN [rd[g] EXCEPT !.allowed = @ \cup {ev.did}, !.quiet = FALSE] ELSE rd[g]]
         /\ ls' = [g \in DOMAIN ls |-> [ls[g] EXCEPT !.may = @ \cup {ev.name}]]
         /\ UNCHANGED live
    [] ev.ev = "ret" /\ ev.op = "register" ->
         LET w == open[ev.g]
             old == IF w.name \in DOMAIN live THEN live[w.name] ELSE {}
         IN \* what returned before this registration was called is overwritten for every later lookup
            /\ live' = With(live, w.name, {x \in old : x.end > w.start} \cup {[did |-> w.did, end |-> ev.t]})
            /\ open' = Without(open, ev.g)
            /\ UNCHANGED <<rd, ls>>
    [] ev.ev = "call" /\ ev.op = "named" ->
         /\ rd' = With(rd, ev.g, [name |-> ev.name, allowed |-> LiveDids(ev.name) \cup OpenDids(ev.name),
                                   quiet |-> OpenDids(ev.name) = {}])
         /\ UNCHANGED <<live, open, ls>>
    [] ev.ev = "ret" /\ ev.op = "named" ->
         \* "the latest once registrations have finished": a lookup during which no registration of the name was in
         \* progress has said which one is the latest -- every later lookup must agree (this matters when the last
         \* registrations of a name overlapped each other: either may be the latest, but only one of them)
         /\ live' = IF ev.g \in DOMAIN rd /\ rd[ev.g].quiet /\ ev.name \in DOMAIN live /\ ev.res \in rd[ev.g].allowed
                    THEN With(live, ev.name, {x \in live[ev.name] : x.did = ev.res}) ELSE live
         /\ rd' = Without(rd, ev.g) /\ UNCHANGED <<open, ls>>
    [] ev.ev = "call" /\ ev.op = "list" ->
         /\ ls' = With(ls, ev.g, [must |-> Known, may |-> Known \cup OpenNames])
         /\ UNCHANGED <<live, open, rd>>
    [] ev.ev = "ret" /\ ev.op = "list" ->
         /\ ls' = Without(ls, ev.g) /\ UNCHANGED <<live, open, rd>>
    [] OTHER -> UNCHANGED <<live, open, rd, ls>>

Next ==
  /\ l <= Len(Trace)
  /\ l' = l + 1
  /\ LET ev == Trace[l] IN
     /\ Step(ev)
     /\ nmis' = IF Bad(ev) THEN nmis + 1 ELSE nmis
     /\ cnt' = IF ev.ev = "ret" THEN Bump(cnt, "reg." \o ev.op) ELSE IF ev.ev \in {"init", "styles"} THEN Bump(cnt, ev.ev) ELSE cnt
     /\ (~Bad(ev) \/ CSVWrite("%1$s", <<ToJson([scen |-> IF "scen" \in DOMAIN ev THEN ev.scen ELSE "", line |-> l,
                                                facet |-> Facet(ev), op |-> IF "op" \in DOMAIN ev THEN ev.op ELSE ev.ev,
                                                detail |-> [obs |-> ev, hint |-> Hint(ev)]])>>, MisFile))
     /\ (l < Len(Trace) \/ Done(nmis', cnt'))

Spec == Init /\ [][Next]_vars
=============================================================================
