package main

import (
	"bufio"
	"os"
)

func (w *world) execRender2(op M) bool {
	switch opStr(op, "op") {
	case "measure":
		w.lastRes = M{"metrics": obsMetrics(op)}
		return true
	}
	return false
}

func (w *world) observeMore(obs M, facets map[string]bool, op M) {}

func runRegistryMode(in *os.File, w *bufio.Writer)                  { derr("not built") }
func runConcMode(in *os.File, w *bufio.Writer, f map[string]bool) { derr("not built") }
