package main

import (
	"strings"

	"go.pennock.tech/tabular"
	"go.pennock.tech/tabular/length"
)

// obsMetrics (C18): the string is given as parts (each part is "\n" or a chunk
// without line feeds); the driver joins them and logs what the library's line
// and width functions say about the result, and what a cell built from it reports.
func obsMetrics(op M) M {
	var sb strings.Builder
	parts := opList(op, "parts")
	chunks := []interface{}{}
	for _, p := range parts {
		ps := p.(string)
		sb.WriteString(ps)
		if ps != "\n" {
			if strings.Contains(ps, "\n") {
				derr("measure: chunk contains a line feed")
			}
			// per chunk: the three measures of the chunk alone
			chunks = append(chunks, []interface{}{ps, length.StringBytes(ps), length.StringRunes(ps), length.StringCells(ps)})
		}
	}
	s := sb.String()
	ls := length.Lines(s)
	lines := []interface{}{}
	for _, l := range ls {
		lines = append(lines, []interface{}{l, length.StringBytes(l), length.StringRunes(l), length.StringCells(l)})
	}
	c := tabular.NewCell(s)
	cl := []interface{}{}
	for _, l := range c.Lines() {
		cl = append(cl, l)
	}
	return M{
		"s": s, "lines": lines, "chunks": chunks,
		"llb": length.LongestLineBytes(s), "llr": length.LongestLineRunes(s), "llc": length.LongestLineCells(s),
		"cellH": c.Height(), "cellW": c.TerminalCellWidth(), "cellLines": cl, "cellText": c.String(),
	}
}
