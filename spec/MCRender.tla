------------------------------ MODULE MCRender ------------------------------
(***************************************************************************)
(* Bounded model shared by the renderer properties (C03-C08): all small grids over an alphabet of cell      *)
(* shapes (empty, one narrow line, one wide line, two lines, items that    *)
(* declare a width or a height), optional header of any length, separators *)
(* anywhere, ragged and empty rows; then every assignment of alignments to *)
(* column 0 and each column (text, markdown) or of skipable (JSON); then a  *)
(* wrapper of format Fmt, a decoration (text), html options, a render.     *)
(* Model level: the implementation-shaped emitter of the format satisfies  *)
(* the declarative relation of the format.  Every render scenario is       *)
(* written out for the real library.                                       *)
(***************************************************************************)
EXTENDS TabularRender, Json, CSV
CONSTANTS Fmt, CellNames, MaxCols, MaxRows, AlignVals, DecorNames, HdrChoices, HtmlChoices, CheckWriter, JsonVariant, GenFile
VARIABLES st, hist, ph
vars == <<st, hist, ph>>

L(s) == << <<s, Len(s)>> >>
\* hostile texts by name (the other names stand for themselves)
Hostile(name) ==
  CASE name = "E" -> "" [] name = "Q" -> "\"" [] name = "C" -> "," [] name = "N" -> "\n" [] name = "R" -> "\r"
    [] name = "QQ" -> "a\"b" [] name = "CQ" -> ",\"" [] name = "RN" -> "x\r\ny" [] name = "P" -> "|" [] name = "B" -> "\\"
    [] name = "BP" -> "\\|" [] name = "LT" -> "<b>" [] name = "AMP" -> "&amp;" [] name = "SP" -> " x " [] name = "NN" -> "a\nb"
    [] name = "AP" -> "'" [] name = "GT" -> ">" [] name = "SC" -> "</td><script>" [] name = "U" -> "u"
    [] OTHER -> name
Enc(s) == "\"" \o s \o "\""     \* placeholder JSON encoding inside the bounded model (the driver logs the real one)
ItemOf(name) ==
  IF Fmt # "text" THEN
    CASE name = "nil" -> [k |-> "nil", enc |-> "null"]
      [] name = "num" -> [k |-> "other", which |-> "int42", caps |-> <<>>, strv |-> "", gov |-> "", errv |-> "", fmtv |-> "42",
                          h |-> 0, w |-> 0, enc |-> "42", tx |-> [strv |-> <<>>, gov |-> <<>>, errv |-> <<>>, fmtv |-> <<>>]]
      [] name = "obj" -> [k |-> "other", which |-> "strhidden", caps |-> <<"String">>, strv |-> "shown text", gov |-> "", errv |-> "", fmtv |-> "F",
                          h |-> 0, w |-> 0, enc |-> "{}", tx |-> [strv |-> <<>>, gov |-> <<>>, errv |-> <<>>, fmtv |-> <<>>]]
      [] name = "obje" -> [k |-> "other", which |-> "strhiddenempty", caps |-> <<"String">>, strv |-> "", gov |-> "", errv |-> "", fmtv |-> "F",
                          h |-> 0, w |-> 0, enc |-> "{}", tx |-> [strv |-> <<>>, gov |-> <<>>, errv |-> <<>>, fmtv |-> <<>>]]
      [] OTHER -> [k |-> "str", s |-> Hostile(name), enc |-> Enc(Hostile(name)), tx |-> [s |-> <<>>]]
  ELSE
  CASE name = "e"  -> [k |-> "str", s |-> "", tx |-> [s |-> <<>>]]
    [] name = "a"  -> [k |-> "str", s |-> "a", tx |-> [s |-> L("a")]]
    [] name = "w"  -> [k |-> "str", s |-> "bbb", tx |-> [s |-> L("bbb")]]
    [] name = "m"  -> [k |-> "str", s |-> "a\nbb", tx |-> [s |-> << <<"a", 1>>, <<"bb", 2>> >>]]
    [] name = "n"  -> [k |-> "nil"]
    [] name = "W5" -> [k |-> "obj", caps |-> <<"String", "Width">>, strv |-> "ab", gov |-> "", errv |-> "", fmtv |-> "F", h |-> 0, w |-> 5,
                       tx |-> [strv |-> L("ab"), gov |-> <<>>, errv |-> <<>>, fmtv |-> L("F")]]
    [] name = "W1" -> [k |-> "obj", caps |-> <<"String", "Width">>, strv |-> "abc", gov |-> "", errv |-> "", fmtv |-> "F", h |-> 0, w |-> 1,
                       tx |-> [strv |-> L("abc"), gov |-> <<>>, errv |-> <<>>, fmtv |-> L("F")]]
    [] name = "WH" -> [k |-> "obj", caps |-> <<"String", "Height", "Width">>, strv |-> "ab", gov |-> "", errv |-> "", fmtv |-> "F", h |-> 2, w |-> 4,
                       tx |-> [strv |-> L("ab"), gov |-> <<>>, errv |-> <<>>, fmtv |-> L("F")]]
    [] name = "W0" -> [k |-> "obj", caps |-> <<"String", "Width">>, strv |-> "", gov |-> "", errv |-> "", fmtv |-> "F", h |-> 0, w |-> 3,
                       tx |-> [strv |-> <<>>, gov |-> <<>>, errv |-> <<>>, fmtv |-> L("F")]]
    [] name = "H3" -> [k |-> "obj", caps |-> <<"String", "Height">>, strv |-> "a", gov |-> "", errv |-> "", fmtv |-> "F", h |-> 3, w |-> 0,
                       tx |-> [strv |-> L("a"), gov |-> <<>>, errv |-> <<>>, fmtv |-> L("F")]]
    [] name = "H1" -> [k |-> "obj", caps |-> <<"String", "Height">>, strv |-> "a\nbb", gov |-> "", errv |-> "", fmtv |-> "F", h |-> 1, w |-> 0,
                       tx |-> [strv |-> << <<"a", 1>>, <<"bb", 2>> >>, gov |-> <<>>, errv |-> <<>>, fmtv |-> L("F")]]

Tuples(n) == [1..n -> CellNames]
ItemsOf(tp) == [i \in DOMAIN tp |-> ItemOf(tp[i])]
T == st.tbl[1]

BuildOps ==
  (IF ~T.hdrp /\ Len(T.rows) = 0
   THEN {[op |-> "headers", t |-> 1, items |-> ItemsOf(tp)] : tp \in UNION {Tuples(n) : n \in HdrChoices}} ELSE {})
  \cup (IF Len(T.rows) < MaxRows
        THEN {[op |-> "rowitems", t |-> 1, items |-> ItemsOf(tp)] : tp \in UNION {Tuples(n) : n \in 0..MaxCols}}
             \cup {[op |-> "sep", t |-> 1]}
        ELSE {})

AlignCol == CASE ph = "align0" -> 0 [] ph = "align1" -> 1 [] ph = "align2" -> 2 [] OTHER -> -1
NextAlignPh == CASE ph = "build" -> "align0" [] ph = "align0" -> "align1" [] ph = "align1" -> "align2" [] OTHER -> "wrap"

NewT == [op |-> "newtable", via |-> "core"]
Init == /\ st = Apply(InitState, NewT, <<>>) /\ hist = <<NewT>> /\ ph = "build"

Do(op, nph) == /\ st' = Apply(st, op, <<>>) /\ hist' = Append(hist, op) /\ ph' = nph
Skip(nph) == /\ UNCHANGED <<st, hist>> /\ ph' = nph

Next ==
  \/ ph = "build" /\ \E op \in BuildOps : Do(op, "build")
  \/ ph = "build" /\ Skip("align0")
  \/ /\ ph \in {"align0", "align1", "align2"}
     /\ \/ Skip(NextAlignPh)
        \/ /\ AlignCol <= T.ncols
           /\ \E v \in AlignVals : Do([op |-> "setprop", owner |-> [kind |-> "column", t |-> 1, n |-> AlignCol],
                                        k |-> IF Fmt = "json" THEN "k_skip" ELSE "k_align", v |-> v], NextAlignPh)
  \/ ph = "wrap" /\ Do([op |-> "wrap", kind |-> Fmt, over |-> [t |-> 1]],
                        IF Fmt = "text" THEN "decor" ELSE IF Fmt = "html" THEN "html" ELSE "render")
  \/ ph = "html" /\ \E hc \in HtmlChoices :
        IF hc \in {"none", "regen"} THEN Skip("render")
        ELSE Do([op |-> "htmlopts", w |-> 1, id |-> IF hc = "all" THEN "ID" ELSE "", class |-> IF hc = "all" THEN "CL" ELSE "",
                 caption |-> IF hc = "all" THEN "CAP" ELSE "", gen |-> 1,
                 genvals |-> IF hc = "gen0" THEN <<>> ELSE <<"r0", "r1">>], "render")
  \/ ph = "decor" /\ \E d \in DecorNames :
        IF d = "default" THEN Skip("render")
        ELSE Do([op |-> "decor", w |-> 1, name |-> d,
                 dec |-> IF d = "none" THEN [DefaultDec EXCEPT !.boxless = 1, !.g = [f \in DOMAIN DefaultDec.g |-> ""]]
                         ELSE DefaultDec], "render")
  \/ ph = "render" /\ Do([op |-> "render", w |-> 1, entry |-> "Render"], "done")
  \* the same wrapper again after its options changed (a generator set, replaced or its values changed)
  \/ ph = "done" /\ Fmt = "html" /\ "regen" \in HtmlChoices
                 /\ Cardinality({i \in DOMAIN hist : hist[i].op = "render"}) = 1
                 /\ Do([op |-> "htmlopts", w |-> 1, id |-> "", class |-> "K", caption |-> "", gen |-> 1, genvals |-> <<"s0", "s1", "s2">>], "render2")
  \/ ph = "render2" /\ Do([op |-> "render", w |-> 1, entry |-> "RenderTo"], "done")

Spec == Init /\ [][Next]_vars
View == <<st, ph>>
Emit == GenFile = "" \/ ph' # "done" \/ CSVWrite("%1$s", <<ToJson(hist')>>, GenFile)

Inv == /\ Inv_C02(st)
       /\ (ph = "render" /\ Fmt = "text") => EmitTextOK(st, 1, st.wr[1].dec)
       /\ (ph = "render" /\ Fmt # "text") => EmitOKV(st, 1, Fmt, JsonVariant)
       /\ (ph = "render" /\ CheckWriter) => WriterOK(st, 1, Fmt, st.wr[1].dec)
=============================================================================
