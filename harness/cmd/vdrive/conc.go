package main

import (
	"bufio"
	"bytes"
	"fmt"
	"math/rand"
	"os"
	"runtime"
	"sync"
	"sync/atomic"

	"go.pennock.tech/tabular/texttable"
	"go.pennock.tech/tabular/texttable/decoration"
)

// Conc mode (C16). Phase 1: every scenario runs alone; the raw bytes of each of
// its renders are kept. Phase 2: the same scenarios run concurrently, one
// goroutine each (each goroutine owns its tables and wrappers), start-gated
// together, for R rounds with seeded scheduling jitter, while one more goroutine
// reads (and extends, with fresh names) the decoration registry. Every
// goroutine's log is a trace of its own; each render additionally records
// whether its bytes equal those of the solo run ("solo").

type concShared struct {
	solo [][]string // per scenario: raw outputs of its render ops, in order
}

var nexec atomic.Int64 // scenario executions (concurrent and solo), counted as they finish

func runConcMode(in *os.File, out *bufio.Writer, facets map[string]bool) {
	sc := bufio.NewScanner(in)
	sc.Buffer(make([]byte, 1<<20), 1<<28)
	var ids []string
	var scens [][]M
	var raw [][]byte
	for sc.Scan() {
		line := bytes.TrimSpace(sc.Bytes())
		if len(line) == 0 {
			continue
		}
		id, ops, err := parseScenarioLine(line, false)
		if err != nil {
			fatal(err)
		}
		if id == "" {
			id = fmt.Sprintf("s%d", len(ids)+1)
		}
		ids = append(ids, id)
		scens = append(scens, ops)
		raw = append(raw, append([]byte{}, line...))
	}
	reparse := func(i int) []M {
		_, ops, err := parseScenarioLine(raw[i], false)
		if err != nil {
			fatal(err)
		}
		return ops
	}
	// The concurrent rounds come FIRST, on a process that has rendered nothing
	// yet (lazily initialised shared state, caches and the like are cold), and
	// record the raw bytes of every render; the solo runs follow and every
	// concurrent output is compared with the solo output of the same scenario.
	solo := make([][]string, len(scens))
	conc := map[string][]string{} // "round/index" -> raw outputs
	var concMu sync.Mutex
	// phase 2: concurrent rounds
	rounds := *flagRounds
	group := *flagGroup
	nops := 0
	for r := 1; r <= rounds; r++ {
		for base := 0; base < len(scens); base += group {
			end := base + group
			if end > len(scens) {
				end = len(scens)
			}
			bufs := make([]*bytes.Buffer, end-base)
			var wg sync.WaitGroup
			start := make(chan struct{})
			stop := make(chan struct{})
			// the registry is read and extended concurrently
			var rwg sync.WaitGroup
			rwg.Add(1)
			go func(r, base int) {
				defer rwg.Done()
				<-start
				for k := 0; ; k++ {
					select {
					case <-stop:
						return
					default:
					}
					decoration.Named("utf8-heavy")
					decoration.RegisteredDecorationNames()
					if k%16 == 0 {
						decoration.RegisterDecorationName(fmt.Sprintf("conc-%d-%d-%d", r, base, k), decoration.ASCIIBoxSimple())
					}
					runtime.Gosched()
				}
			}(r, base)
			for i := base; i < end; i++ {
				bufs[i-base] = &bytes.Buffer{}
				wg.Add(1)
				go func(i int, buf *bytes.Buffer) {
					defer wg.Done()
					bw := bufio.NewWriter(buf)
					w := newWorld()
					w.recordRaw = true
					w.jitter = rand.New(rand.NewSource(int64(*flagSubst)*7919 + int64(r*100003+i)))
					ops := reparse(i)
					<-start
					runScenarioIn(w, bw, fmt.Sprintf("c%d_%s", r, ids[i]), ops, facets, false, nil)
					bw.Flush()
					nexec.Add(1)
					concMu.Lock()
					conc[fmt.Sprintf("%d/%d", r, i)] = w.rawOutputs
					concMu.Unlock()
				}(i, bufs[i-base])
			}
			close(start)
			wg.Wait()
			close(stop)
			rwg.Wait()
			for _, b := range bufs {
				out.Write(b.Bytes())
			}
			for i := base; i < end; i++ {
				nops += len(scens[i])
			}
		}
	}
	// solo runs, then the comparison
	for i := range scens {
		w := newWorld()
		w.recordRaw = true
		runScenarioIn(w, out, "solo_"+ids[i], reparse(i), facets, false, nil)
		nexec.Add(1)
		solo[i] = w.rawOutputs
		nops += len(scens[i])
	}
	unequal := []interface{}{}
	compared := 0
	for r := 1; r <= rounds; r++ {
		for i := range scens {
			c := conc[fmt.Sprintf("%d/%d", r, i)]
			if len(c) != len(solo[i]) {
				unequal = append(unequal, []interface{}{r, ids[i], -1})
				continue
			}
			for k := range c {
				compared++
				if c[k] != solo[i][k] {
					unequal = append(unequal, []interface{}{r, ids[i], k + 1})
				}
			}
		}
	}
	writeLine(out, M{"op": M{"op": "reset", "id": "solocmp", "reg": registrySnapshot(), "defdec": decorOfWrapper(texttable.New())}})
	writeLine(out, M{"op": M{"op": "solocmp"}, "obs": M{"res": M{"compared": compared, "unequal": unequal}}})
	out.Flush()
	fmt.Fprintf(os.Stderr, "vdrive: {\"scenarios\": %d, \"ops\": %d, \"renders\": %d}\n", nexec.Load(), nops, compared)
}
