----------------------------- MODULE Concurrent -----------------------------
(***************************************************************************)
(* C16 at design level: N owners, each with tables and wrappers of its     *)
(* own, stepping in any interleaving; the only shared object is the        *)
(* decoration registry, which the owners read and one more process         *)
(* extends with fresh names.  The specification has no variable shared     *)
(* between owners -- an owner's next state and its outputs are functions   *)
(* of its own state (and of registry entries that never change once        *)
(* present) -- so the projection of any behaviour onto one owner is a      *)
(* behaviour of that owner running alone.  TLC checks that claim on a      *)
(* small instance; the binding (the real library has no hidden shared      *)
(* state either) is what the concurrent driver plus the race detector      *)
(* establish.                                                              *)
(* An owner's state is abstracted to the sequence of operations it has     *)
(* performed; its output for a render is Out(its history, the decoration   *)
(* it looked up).                                                          *)
(***************************************************************************)
EXTENDS Integers, Sequences, FiniteSets, TLC

CONSTANTS Owners, Script, Builtin, Fresh    \* Script: [Owners -> Seq(op)]; ops: "build", "render:<name>"

VARIABLES hist,     \* [Owners -> Seq(op)]   each owner's private state
          outs,     \* [Owners -> Seq(output)]
          reg       \* the shared registry: set of names (entries are immutable once present)
vars == <<hist, outs, reg>>

IsRender(op) == op # "build"
DecorOf(op, r) == IF op \in r THEN op ELSE "EMPTY"
Out(h, d) == <<h, d>>

Init == hist = [o \in Owners |-> <<>>] /\ outs = [o \in Owners |-> <<>>] /\ reg = Builtin

Step(o) ==
  /\ Len(hist[o]) < Len(Script[o])
  /\ LET op == Script[o][Len(hist[o]) + 1] IN
     /\ hist' = [hist EXCEPT ![o] = Append(@, op)]
     /\ outs' = IF IsRender(op) THEN [outs EXCEPT ![o] = Append(@, Out(hist[o], DecorOf(op, reg)))] ELSE outs
  /\ UNCHANGED reg

Extend == \E n \in Fresh \ reg : reg' = reg \cup {n} /\ UNCHANGED <<hist, outs>>

Next == (\E o \in Owners : Step(o)) \/ Extend
Spec == Init /\ [][Next]_vars

\* what owner o produces when it runs alone against the built-in registry
RECURSIVE SoloOuts(_, _)
SoloOuts(o, k) ==
  IF k = 0 THEN <<>>
  ELSE LET op == Script[o][k]  prev == SoloOuts(o, k - 1) IN
       IF IsRender(op) THEN Append(prev, Out(SubSeq(Script[o], 1, k - 1), DecorOf(op, Builtin))) ELSE prev

\* C16: every owner's outputs so far equal those of its solo run (scripts only name built-in decorations)
Inv_C16 == \A o \in Owners : outs[o] = SoloOuts(o, Len(hist[o]))
=============================================================================
