--------------------------- MODULE TabularTrace ---------------------------
(***************************************************************************)
(* Trace validation: the specification, driven by the NDJSON log of what   *)
(* the real library did.  Each line is [op |-> operation record,           *)
(* obs |-> [facet |-> logged observation]].  For every line the spec's own *)
(* operator Apply gives the next state; every logged facet is compared     *)
(* with what the specification allows in that state.                       *)
(*                                                                         *)
(* Scenarios are separated by "reset" lines.  A scenario whose state has    *)
(* been seen to differ from the model's is poisoned (its remaining lines   *)
(* are consumed without comparison), so that one defect gives one report   *)
(* and the rest of the file is still checked.  Mismatch records are appended to MisFile; the   *)
(* state carries only a counter (no growing value in the state).           *)
(***************************************************************************)
EXTENDS TabularRender, Json, CSV

CONSTANTS TraceFile, MisFile

Trace == ndJsonDeserialize(TraceFile)

VARIABLES st,      \* specification state of the current scenario
          l,       \* next trace line
          scen,    \* id of the current scenario
          poisoned,
          nmis,    \* number of mismatching scenarios so far
          cnt      \* what was actually compared: [facet |-> number of comparisons], plus "#reset" (scenarios
                   \* begun) and "#skipped" (lines not judged because their scenario was poisoned)
vars == <<st, l, scen, poisoned, nmis, cnt>>

HasObs(ev, f) == "obs" \in DOMAIN ev /\ f \in DOMAIN ev.obs
HasRes(ev, f) == HasObs(ev, "res") /\ f \in DOMAIN ev.obs.res

\* the callback events of this call: logged if any callback is registered
FiredOf(s, ev) ==
  IF HasRes(ev, "cblog") THEN ev.obs.res.cblog
  ELSE ImplEvents(s, SlotsOfAll(s, ev.op))

\* facets that disagree after applying ev.op in state s (ns = state after)
BadFacets(s, ns, ev) ==
  LET o == ev.obs
      op == ev.op
      res == IF "res" \in DOMAIN o THEN o.res ELSE <<>>
  IN BadRes(s, ns, op, res) \cup {f \in (DOMAIN o) \ {"res"} :
        CASE f = "grid"  -> o.grid # ObsGridAll(ns)
          [] f = "drows" -> o.drows # ObsDetached(ns)
          [] f = "text"  -> o.text # ObsText(ns)
          [] f = "errs"  -> ~AgreeErrs(ns, o.errs)
          [] f = "props" -> \/ Range(o.props.vals) # ObsPropSet(ns)
                            \/ Len(o.props.vals) # Cardinality(ObsPropSet(ns))
                            \/ ~AgreeChain(ns, o.props.chain)
          [] f = "obspanic" -> TRUE
          [] OTHER -> ~AgreeMore(s, ns, op, f, o[f])}

Explain(f, s, ns, ev) ==
  CASE f = "grid"  -> [exp |-> ObsGridAll(ns), obs |-> ev.obs.grid]
    [] f = "drows" -> [exp |-> ObsDetached(ns), obs |-> ev.obs.drows]
    [] f = "text"  -> [exp |-> ObsText(ns), obs |-> ev.obs.text]
    [] f = "props" -> [exp |-> ObsPropSet(ns), obs |-> ev.obs.props]
    [] f = "errs"  -> [exp |-> [tbl |-> [t \in DOMAIN ns.tbl |-> Ids(ns.tbl[t].errs)],
                                ecs |-> [e \in DOMAIN ns.ec |-> Ids(ns.ec[e].errs)]],
                       obs |-> ev.obs.errs]
    [] f \in DOMAIN ev.obs -> [obs |-> ev.obs[f], hint |-> ""]
    [] f = "res.cblog" -> [obs |-> ev.obs.res.cblog, hint |-> ExplainCbLog(s, SlotsOfAll(s, ev.op), ev.obs.res.cblog)]
    [] OTHER -> [obs |-> ev.obs.res, hint |-> ExplainMore(s, ns, ev.op, f, ev.obs.res)]

\* Facets that project the model's STATE: when one of them disagrees, the library's state has left the
\* model's, and nothing later in that scenario can be judged (the scenario is poisoned).  All other facets
\* only look at an output of the call; a disagreement there is recorded and the scenario goes on (so that,
\* say, a structurally wrong render does not hide a later render that differs from its first time).
StateFacets == {"grid", "drows", "text", "errs", "props", "res.cblog", "res.panic", "obspanic"}

Init == /\ st = InitState /\ l = 1 /\ scen = "" /\ poisoned = FALSE /\ nmis = 0 /\ cnt = <<>>

\* the facets of a line that are compared with the specification: every logged observation, and every
\* logged field of the call's result
Compared(ev) ==
  IF "obs" \notin DOMAIN ev THEN {}
  ELSE ((DOMAIN ev.obs) \ {"res"}) \cup
       (IF "res" \in DOMAIN ev.obs THEN {"res." \o k : k \in DOMAIN ev.obs.res} ELSE {})
Bump(c, fs) == [f \in (DOMAIN c) \cup fs |-> (IF f \in DOMAIN c THEN c[f] ELSE 0) + (IF f \in fs THEN 1 ELSE 0)]

Done(n, c) == CSVWrite("%1$s", <<ToJson([done |-> TRUE, lines |-> Len(Trace), mismatches |-> n, compared |-> c])>>, MisFile)

Next ==
  /\ l <= Len(Trace)
  /\ l' = l + 1
  /\ LET ev == Trace[l] IN
     IF ev.op.op = "reset"
     THEN /\ st' = [InitState EXCEPT
                      !.reg = IF "reg" \in DOMAIN ev.op
                              THEN [n \in {ev.op.reg[i][1] : i \in DOMAIN ev.op.reg} |->
                                      ev.op.reg[CHOOSE i \in DOMAIN ev.op.reg : ev.op.reg[i][1] = n][2]]
                              ELSE <<>>,
                      !.defdec = IF "defdec" \in DOMAIN ev.op THEN ev.op.defdec ELSE <<>>]
          /\ scen' = ev.op.id /\ poisoned' = FALSE /\ nmis' = nmis
          /\ cnt' = Bump(cnt, {"#reset"})
          /\ (l < Len(Trace) \/ Done(nmis, cnt'))
     ELSE IF poisoned
     THEN /\ UNCHANGED <<st, scen, poisoned, nmis>>
          /\ cnt' = Bump(cnt, {"#skipped"})
          /\ (l < Len(Trace) \/ Done(nmis, cnt'))
     ELSE LET ns  == Apply(st, ev.op, FiredOf(st, ev))
              bad == IF "obs" \in DOMAIN ev THEN BadFacets(st, ns, ev) ELSE {}
          IN /\ st' = ns
             /\ scen' = scen
             /\ poisoned' = (bad \cap StateFacets # {})
             /\ nmis' = IF bad = {} THEN nmis ELSE nmis + 1
             /\ cnt' = Bump(cnt, Compared(ev))
             /\ \A f \in bad :
                  CSVWrite("%1$s", <<ToJson([scen |-> scen, line |-> l, facet |-> f, op |-> ev.op.op,
                                             detail |-> Explain(f, st, ns, ev)])>>, MisFile)
             /\ (l < Len(Trace) \/ Done(nmis', cnt'))

Spec == Init /\ [][Next]_vars
=============================================================================
