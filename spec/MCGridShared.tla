--------------------------- MODULE MCGridShared ---------------------------
(***************************************************************************)
(* C02, bounded model with TWO tables: rows are created in either table or *)
(* detached, join either table, both, or one of them twice, and gain cells *)
(* before and after -- every interleaving within the bounds.  A late cell  *)
(* must widen exactly the tables it outgrows, whichever the row joined     *)
(* last (defects D2 and D18, mutants R3-A1 and R5-A3 live here).  Emit     *)
(* writes the history of every transition as a scenario for the library.   *)
(***************************************************************************)
EXTENDS TabularRender, Json, CSV

CONSTANTS MaxHist,     \* operations per history (the two table creations included)
          MaxRowsS,    \* row objects
          MaxJoin,     \* AddRow calls
          GenFile

VARIABLES st, hist
vars == <<st, hist>>

It(s) == [k |-> "str", s |-> s, tx |-> [s |-> << <<s, Len(s)>> >>]]
Items(n) == [i \in 1..n |-> It(IF i = 1 THEN "a" ELSE "bb")]
NOps(name) == Cardinality({i \in DOMAIN hist : hist[i].op = name})

Ops ==
     (IF Len(st.row) < MaxRowsS
      THEN {[op |-> "rowitems", t |-> t, items |-> Items(n)] : t \in {1, 2}, n \in 0..2}
           \cup {[op |-> "newrow", how |-> "new", t |-> 1, cap |-> 0]}
      ELSE {})
  \cup {[op |-> "rowadd", r |-> r, item |-> It("c")] : r \in {x \in DOMAIN st.row : ~st.row[x].sep /\ Len(st.row[x].cells) < 3}}
  \cup (IF NOps("addrow") < MaxJoin
        THEN {[op |-> "addrow", t |-> t, r |-> r] : t \in {1, 2}, r \in {x \in DOMAIN st.row : ~st.row[x].sep}}
        ELSE {})

NewT == [op |-> "newtable", via |-> "core"]
Init == /\ st = Apply(Apply(InitState, NewT, <<>>), NewT, <<>>) /\ hist = <<NewT, NewT>>
Next == /\ Len(hist) < MaxHist
        /\ \E op \in Ops :
             /\ st' = Apply(st, op, ImplEvents(st, SlotsOfAll(st, op)))
             /\ hist' = Append(hist, op)
Spec == Init /\ [][Next]_vars
View == st
Emit == GenFile = "" \/ CSVWrite("%1$s", <<ToJson(hist')>>, GenFile)

Inv == Inv_C02(st) /\ Inv_Detached(st)
=============================================================================
