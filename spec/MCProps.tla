------------------------------ MODULE MCProps ------------------------------
(***************************************************************************)
(* C12, bounded model: all interleavings of set / set-to-nil over several  *)
(* owners (table, defaults column 0, column 1, row, cell, a by-value copy  *)
(* of the cell, a column handle taken earlier) and type-distinct keys,     *)
(* interleaved with cell copies, handle taking and growth of the table     *)
(* past the column storage's initial capacity.                             *)
(***************************************************************************)
EXTENDS TabularRender, Json, CSV
CONSTANTS OwnerKinds, Keys, Vals, MaxHist, MaxCopies, GenFile
VARIABLES st, hist
vars == <<st, hist>>

It(s) == [k |-> "str", s |-> s, tx |-> [s |-> << <<s, Len(s)>> >>]]
T == st.tbl[1]

Owners ==
  (IF "table" \in OwnerKinds THEN {[kind |-> "table", t |-> 1]} ELSE {})
  \cup (IF "column" \in OwnerKinds THEN {[kind |-> "column", t |-> 1, n |-> n] : n \in 0..Min2(T.ncols, 1)} ELSE {})
  \cup (IF "row" \in OwnerKinds THEN {[kind |-> "row", r |-> 1]} ELSE {})
  \cup (IF "cell" \in OwnerKinds THEN {[kind |-> "cell", r |-> 1, c |-> c] : c \in 1..Min2(2, Len(st.row[1].cells))} ELSE {})
  \cup (IF "cellvar" \in OwnerKinds THEN {[kind |-> "cellvar", v |-> v] : v \in DOMAIN st.cv} ELSE {})
  \cup (IF "handle" \in OwnerKinds THEN {[kind |-> "handle", h |-> h] : h \in DOMAIN st.hd} ELSE {})

Ops ==
  {[op |-> "setprop", owner |-> o, k |-> k, v |-> v] : o \in Owners, k \in Keys, v \in Vals}
  \cup (IF Len(st.cv) < MaxCopies
        THEN {[op |-> "copycell", from |-> f] :
                f \in {[kind |-> "cell", r |-> 1, c |-> 1]} \cup {[kind |-> "cellvar", v |-> v] : v \in DOMAIN st.cv}}
        ELSE {})
  \* a by-value copy of the cell added to the row itself: one more independent owner
  \cup (IF Len(st.row[1].cells) < 2 /\ MaxCopies > 0
        THEN {[op |-> "rowaddcell", r |-> 1, from |-> [kind |-> "cell", r |-> 1, c |-> 1]]} ELSE {})
  \cup (IF Len(st.hd) < 1 THEN {[op |-> "takecol", t |-> 1, n |-> n] : n \in 0..1} ELSE {})
  \* the header installed or replaced (its texts change): columns keep their properties and handles
  \cup (IF Cardinality({i \in DOMAIN hist : hist[i].op = "headers"}) < 2
        THEN {[op |-> "headers", t |-> 1, items |-> <<It(n)>>] : n \in {"h1", "h2"}} ELSE {})
  \cup (IF T.ncols < 12 THEN {[op |-> "rowitems", t |-> 1, items |-> [i \in 1..12 |-> It("w")]]} ELSE {})

NewT == [op |-> "newtable", via |-> "core"]
Row1 == [op |-> "rowitems", t |-> 1, items |-> <<It("a")>>]
Init == /\ st = Apply(Apply(InitState, NewT, <<>>), Row1, <<>>) /\ hist = <<NewT, Row1>>
Next == /\ Len(hist) < MaxHist
        /\ \E op \in Ops : st' = Apply(st, op, <<>>) /\ hist' = Append(hist, op)
Spec == Init /\ [][Next]_vars
View == st
Emit == GenFile = "" \/ CSVWrite("%1$s", <<ToJson(hist')>>, GenFile)

Inv == Inv_C02(st)

\* setting a property on one owner changes no other owner's map (a handle and
\* its column are the same owner)
SameOwner(o, kind, a, b) ==
  \/ OwnerTriple(o) = <<kind, a, b>>
  \/ o.kind = "cellvar" /\ kind = "cellvar" /\ a = o.v
  \/ o.kind = "handle" /\ kind = "column" /\ a = st.hd[o.h].t /\ b = st.hd[o.h].n
  \/ o.kind = "handle" /\ kind = "handle" /\ st.hd[a] = st.hd[o.h]
  \/ o.kind = "column" /\ kind = "handle" /\ st.hd[a].t = o.t /\ st.hd[a].n = o.n
AllOwnerTriples(s) ==
  {<<"table", 1, 0>>, <<"row", 1, 0>>} \cup {<<"cell", 1, c>> : c \in 1..Min2(2, Len(s.row[1].cells))}
  \cup {<<"column", 1, n>> : n \in 0..s.tbl[1].ncols}
  \cup {<<"cellvar", v, 0>> : v \in DOMAIN s.cv} \cup {<<"handle", h, 0>> : h \in DOMAIN s.hd}
Independence ==
  [][(hist' # hist /\ hist'[Len(hist')].op = "setprop") =>
       LET o == hist'[Len(hist')].owner IN
       \A x \in AllOwnerTriples(st) :
          ~SameOwner(o, x[1], x[2], x[3]) => PropsOf(st', x[1], x[2], x[3]) = PropsOf(st, x[1], x[2], x[3])]_vars
=============================================================================
