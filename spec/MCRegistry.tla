----------------------------- MODULE MCRegistry -----------------------------
(***************************************************************************)
(* C17, bounded model: NP processes, each running one of the small         *)
(* programs over two names; every interleaving of lock / body / unlock.    *)
(* Every complete behaviour's linearization order is written out as a      *)
(* forced schedule for the real registry.                                  *)
(***************************************************************************)
EXTENDS Registry, Json, CSV, SequencesExt
CONSTANTS GenFile, LogFile, ProgSet

\* the programs (chosen in the cfg through ProgSet)
R(n, d) == [op |-> "register", name |-> n, d |-> d]
N(n) == [op |-> "named", name |-> n]
Li == [op |-> "list"]

MCProg ==
  CASE ProgSet = "rw"  -> (1 :> <<R("x", "d1"), N("x")>> @@ 2 :> <<R("x", "d2"), N("y")>> @@ 3 :> <<N("x"), Li>>)
    [] ProgSet = "ww"  -> (1 :> <<R("x", "d1"), R("y", "d1")>> @@ 2 :> <<R("y", "d2"), R("x", "d2")>> @@ 3 :> <<Li, N("x")>>)
    [] ProgSet = "mix" -> (1 :> <<R("x", "d1"), Li>> @@ 2 :> <<N("x"), R("x", "d2")>> @@ 3 :> <<N("x"), N("x")>>)
    \* smaller programs (five operations) for the quick tier: with call and return as steps of their own the
    \* six-operation sets have four to six million states each
    [] ProgSet = "s1"  -> (1 :> <<R("x", "d1"), N("x")>> @@ 2 :> <<R("x", "d2")>> @@ 3 :> <<N("x"), Li>>)
    [] ProgSet = "s2"  -> (1 :> <<R("x", "d1")>> @@ 2 :> <<R("y", "d2"), N("x")>> @@ 3 :> <<Li, N("y")>>)
    [] ProgSet = "s3"  -> (1 :> <<N("x"), R("x", "d1")>> @@ 2 :> <<R("x", "d2")>> @@ 3 :> <<N("x"), N("x")>>)
MCProcs == {1, 2, 3}
MCBuiltins == ("b" :> "db")

View == <<reg, lock, pc, ip, results, order, clk, iv>>
EmitDone == GenFile = "" \/ ~AllDone' \/ AllDone
            \/ CSVWrite("%1$s", <<ToJson([procs |-> [p \in 1..3 |-> MCProg[p]], order |-> order'])>>, GenFile)

\* ... and the same behaviour as an observer outside the lock logs it: a call line and a return line per
\* operation, in clock order -- the input format of RegistryTrace.tla, which must accept every one of them
AllOps == UNION {{<<p, i>> : i \in 1..Len(MCProg[p])} : p \in MCProcs}
LogLine(x, ret) ==
  LET o == MCProg[x[1]][x[2]]
      base == [ev |-> IF ret THEN "ret" ELSE "call", op |-> o.op, g |-> x[1],
               name |-> IF "name" \in DOMAIN o THEN o.name ELSE "", t |-> IF ret THEN iv'[x[1]][x[2]].e ELSE iv'[x[1]][x[2]].s]
  IN IF ~ret THEN (IF o.op = "register" THEN base @@ [did |-> o.d] ELSE base)
     ELSE CASE o.op = "named" -> base @@ [res |-> results'[x[1]][x[2]]]
            [] o.op = "list"  -> base @@ [res |-> SetToSeq(results'[x[1]][x[2]]), sorted |-> 1]
            [] OTHER -> base
Stamps == {iv'[x[1]][x[2]].s : x \in AllOps} \cup {iv'[x[1]][x[2]].e : x \in AllOps}
LineAt(t) == LET x == CHOOSE y \in AllOps : iv'[y[1]][y[2]].s = t \/ iv'[y[1]][y[2]].e = t
             IN LogLine(x, iv'[x[1]][x[2]].e = t)
ModelLog == <<[ev |-> "init", names |-> <<<<"b", "db">>>>, early |-> <<>>, builtins |-> <<"b">>]>> \o
            [k \in 1..Cardinality(Stamps) |-> LineAt(k)]
EmitLog == LogFile = "" \/ ~Stamp \/ ~AllDone' \/ AllDone \/ CSVWrite("%1$s", <<ToJson(ModelLog)>>, LogFile)

Inv == MutualExclusion /\ Linearizable /\ LookupSound /\ FinalState /\ ListingComplete /\ Regular
=============================================================================
