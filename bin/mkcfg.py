#!/usr/bin/env python3
"""Writes spec/cfg/<property>-<n>-<tier>.cfg for every bounded model of every plan, so that the models can be
run by hand:  cd spec && cp cfg/C02-0-quick.cfg MCGrid.cfg && tlc -workers 8 MCGrid.tla
(the orchestrator writes the same configurations on the fly, with GenFile pointing at its work directory)."""
import os
import sys
sys.path.insert(0, os.path.dirname(os.path.abspath(__file__)))
import plans
import vlib

d = os.path.join(vlib.SPEC, "cfg")
os.makedirs(d, exist_ok=True)
for f in os.listdir(d):
    os.remove(os.path.join(d, f))
index = []
for prop, plan in sorted(plans.PLANS.items()):
    for i, mc in enumerate(plan.get("mc", [])):
        for tier in ("quick", "thorough"):
            consts = dict(mc[tier])
            consts["GenFile"] = ""
            name = "%s-%d-%s.cfg" % (prop, i, tier)
            vlib.write_cfg(os.path.join(d, name), constants=consts, invariants=mc.get("invariants", ["Inv"]),
                           properties=mc.get("properties", []), view=mc.get("view", "View"))
            index.append("%s  ->  %s.tla" % (name, mc["module"]))
with open(os.path.join(d, "INDEX.txt"), "w") as f:
    f.write("cfg file -> module (copy the cfg to <module>.cfg next to the .tla files and run tlc)\n" + "\n".join(index) + "\n"
            "MCRegistry / MCConcurrent: see bin/phases.py (constants are operator substitutions); RegistryProof.tla: tlapm; "
            "RegistryInd.tla: apalache-mc check --cinit=CInit --init=IndInit --inv=IndInv --length=1\n")
print("wrote %d cfg files" % len(index))
