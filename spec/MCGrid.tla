------------------------------ MODULE MCGrid ------------------------------
(***************************************************************************)
(* Bounded model of the table-building history (C02, and the table shapes  *)
(* reused by C09): every interleaving of AddHeaders, AddRowItems,          *)
(* AddSeparator, AppendNewRow, NewRow*, Row.Add (detached, attached,       *)
(* separator) and AddRow within the bounds.  Used twice: model checking of *)
(* the invariants, and generation (Emit writes the witness history of      *)
(* every transition as a scenario for the real library).                   *)
(***************************************************************************)
EXTENDS TabularRender, Json, CSV

CONSTANTS MaxRows,      \* rows + separators in the table
          MaxCells,     \* cells per AddRowItems / AddHeaders / detached row
          MaxLate,      \* cells a row may gain after it joined the table
          MaxDetached,  \* detached rows alive at once
          MaxHdr,       \* AddHeaders calls
          MaxHist,      \* operations per history
          ReAdd,        \* TRUE: a row already in the table may be added once more
          Variant,      \* "repaired" (the model) or "asfound" (Row.Add as found, for the selftest)
          ItemMode,     \* "plain": tiny strings; "mixed": also multi-line, empty, nil and size-lying items (C09)
          GenFile       \* scenario output ("" = none)

VARIABLES st, hist
vars == <<st, hist>>

It(s) == [k |-> "str", s |-> s, tx |-> [s |-> << <<s, Len(s)>> >>]]
L(s) == << <<s, Len(s)>> >>
Liar(caps, txt, ls, h, w) == [k |-> "obj", caps |-> caps, strv |-> txt, gov |-> "", errv |-> "", fmtv |-> "F", h |-> h, w |-> w,
                              tx |-> [strv |-> ls, gov |-> <<>>, errv |-> <<>>, fmtv |-> L("F")]]
TwoLines == << <<"a", 1>>, <<"bb", 2>> >>
Mixed == {It("c"), [k |-> "str", s |-> "", tx |-> [s |-> <<>>]], [k |-> "str", s |-> "a\nbb", tx |-> [s |-> TwoLines]], [k |-> "nil"],
          Liar(<<"String", "Height">>, "a\nbb", TwoLines, 1, 0),      \* height understated
          Liar(<<"String", "Height">>, "a", L("a"), 3, 0),            \* height overstated
          Liar(<<"String", "Height">>, "a", L("a"), -2, 0),
          Liar(<<"String", "Width">>, "abc", L("abc"), 0, 1),         \* width understated
          Liar(<<"String", "Width">>, "a", L("a"), 0, 6),
          Liar(<<"String", "Height", "Width">>, "", <<>>, 2, 2)}
LateItems == IF ItemMode = "mixed" THEN Mixed ELSE {It("c")}
Items(n) == [i \in 1..n |-> It(IF i = 1 THEN "a" ELSE "bb")]

T == st.tbl[1]
NRows == Len(T.rows)
Detached == {r \in DOMAIN st.row : st.row[r].tbl = 0}
NHdrOps == Cardinality({i \in DOMAIN hist : hist[i].op = "headers"})
CanGrow(r) == LET R == st.row[r] IN
  \/ R.sep
  \/ R.tbl = 0 /\ Len(R.cells) < MaxCells
  \/ R.tbl # 0 /\ ~R.sep /\ Len(R.cells) < MaxCells + MaxLate

Ops ==
     {[op |-> "headers", t |-> 1, items |-> Items(n)] : n \in IF NHdrOps < MaxHdr THEN 0..MaxCells ELSE {}}
  \cup {[op |-> "rowitems", t |-> 1, items |-> Items(n)] : n \in IF NRows < MaxRows THEN 0..MaxCells ELSE {}}
  \cup (IF NRows < MaxRows THEN {[op |-> "sep", t |-> 1], [op |-> "appendrow", t |-> 1]} ELSE {})
  \cup (IF Cardinality(Detached) < MaxDetached /\ Len(st.row) < MaxRows + MaxDetached
        THEN {[op |-> "newrow", how |-> "sizedfor", t |-> 1, cap |-> 0],
              [op |-> "newrow", how |-> "new", t |-> 1, cap |-> 0],
              [op |-> "newrow", how |-> "cap", t |-> 1, cap |-> 0]} ELSE {})
  \cup {[op |-> "rowadd", r |-> r, item |-> d] : r \in {x \in DOMAIN st.row : CanGrow(x)}, d \in LateItems}
  \cup {[op |-> "addrow", t |-> 1, r |-> r] : r \in IF NRows < MaxRows THEN Detached ELSE {}}
  \* a row that already is in the table is added again (at most once per history)
  \cup {[op |-> "addrow", t |-> 1, r |-> r] :
          r \in IF NRows < MaxRows /\ ReAdd /\ Cardinality({i \in DOMAIN T.rows : \E j \in DOMAIN T.rows : j # i /\ T.rows[i] = T.rows[j]}) = 0
                THEN {x \in DOMAIN st.row : st.row[x].tbl # 0 /\ ~st.row[x].sep} ELSE {}}

NewT == [op |-> "newtable", via |-> "core"]
Init == /\ st = Apply(InitState, NewT, <<>>) /\ hist = <<NewT>>

Next == /\ Len(hist) < MaxHist
        /\ \E op \in Ops :
             /\ st' = IF Variant = "asfound" /\ op.op = "rowadd"
                      THEN DoRowAddAsFound(st, op, ImplEvents(st, SlotsOfAll(st, op)))
                      ELSE Apply(st, op, ImplEvents(st, SlotsOfAll(st, op)))
             /\ hist' = Append(hist, op)

Spec == Init /\ [][Next]_vars

View == st

\* (simulation mode) one scenario per random walk, written when it reaches the depth
EmitAtDepth == GenFile = "" \/ Len(hist) < MaxHist \/ CSVWrite("%1$s", <<ToJson(hist)>>, GenFile)

\* one scenario per transition of the bounded model
Emit == GenFile = "" \/ CSVWrite("%1$s", <<ToJson(hist')>>, GenFile)

Inv == Inv_C02(st) /\ Inv_Detached(st) /\ Inv_C11_NoPendingOnAttached(st)

\* the row sequence only ever grows at the end, and rows keep their position
RowsAppendOnly ==
  [][\A t \in DOMAIN st.tbl :
       /\ Len(st'.tbl[t].rows) >= Len(st.tbl[t].rows)
       /\ SubSeq(st'.tbl[t].rows, 1, Len(st.tbl[t].rows)) = st.tbl[t].rows
       /\ st'.tbl[t].ncols >= st.tbl[t].ncols]_vars
=============================================================================
