package main

import (
	"math/rand"
	"strings"
)

// substitution consistently replaces every distinct literal of a (TLC-generated)
// scenario by a richer string of the same shape class (same number of lines),
// drawn from the hostile pool of the property at hand. The trace records the
// concrete strings, so the validator never needs to know about it.
type substitution struct {
	rng  *rand.Rand
	pool string
	m    map[string]string
}

func newSubstitution(seed int64, pool string) *substitution {
	return &substitution{rng: rand.New(rand.NewSource(seed)), pool: pool, m: map[string]string{}}
}

var poolText = []string{"a", "word", "two words", " lead", "trail ", "é", "ñandú", "日本語", "ｗｉｄｅ", "한글",
	"é", "ạ̈", "z​w", "‍", "x­y", "\U0001F600", "\U0001F468‍\U0001F469‍\U0001F467",
	"\U0001F1E9\U0001F1EA", "\U0001F44D\U0001F3FD", "tab\there", "-", "|", "+", "12345678901234567890", "mixed日本abc", "́", "Ω≈ç√"}
var poolWide = []string{"日", "日本語", "ｗ", "한글", "漢字かな"}
var poolHTML = []string{"<", ">", "&", "\"", "'", "&amp;", "&lt", "&#60;", "</td>", "<script>alert(1)</script>", "</script>",
	"<style>", "<!--", "-->", "]]>", "`", "=", "a b", "javascript:alert(1)", "plain", "日本", "<td>", "\" onclick=\"x", "' onmouseover='x",
	"&nbsp;", "&#x3c;b&#x3e;", "a<b>c", "{{.}}", "x&y", "\t", "<img src=x onerror=y>", "</table>"}
var poolJSON = []string{"\"", "\\", "\\\"", "\b\f", "\t", "\u0001", "<>&", " ", " ", "\U0001F600", "key", "a b", "é",
	"nul\u0000l", "{\"a\":1}", "[1]", "null", "true", "12", "very long key very long key very long key very long key", "/", "\u007f"}
var poolMD = []string{"|", "\\|", "\\", "a\\", "<br>", "&#x7c;", "&amp;", "`code`", "*em*", "_", "日本", "a|b|c", "||", "<b>x</b>",
	"\"q\"", "'s'", "&", "&lt;", "  spaced  ", "[l](u)", "![i](u)", "---", ":--:", "#", "plain text", "\t"}
var poolCSV = []string{"\"", "\"\"", ",", "a,b", "\r", "\r\n", "\x00", "\xff", "\xfe\xff", "é", "日本", "plain", " ", "\"x\"", ",\",", "x\ry", "'", ";", "\t"}

func (s *substitution) chunk(lit string) string {
	var p []string
	switch s.pool {
	case "html":
		p = poolHTML
	case "json":
		p = poolJSON
	case "md":
		p = poolMD
	case "csv":
		p = poolCSV
	default:
		p = poolText
		if strings.ContainsAny(lit, "W日") {
			p = poolWide
		}
	}
	n := 1
	if s.rng.Intn(4) == 0 {
		n = 2
	}
	var sb strings.Builder
	for i := 0; i < n; i++ {
		sb.WriteString(p[s.rng.Intn(len(p))])
	}
	if s.pool == "csv" {
		return latin1(sb.String()) // byte strings travel as one rune per byte
	}
	return sb.String()
}

// str maps a literal to its substitute: line structure is kept (every non-empty
// line is replaced by a chunk, empty lines stay empty).
func (s *substitution) str(lit string) string {
	if v, ok := s.m[lit]; ok {
		return v
	}
	segs := strings.Split(lit, "\n")
	for i, g := range segs {
		if g != "" {
			c := s.chunk(g)
			if s.pool == "csv" && s.rng.Intn(3) == 0 {
				c += "\n" + s.chunk(g) // CSV texts may hold line feeds anywhere
			}
			segs[i] = c
		}
	}
	v := strings.Join(segs, "\n")
	s.m[lit] = v
	return v
}

func (s *substitution) item(d M) {
	switch d["k"] {
	case "str":
		d["s"] = s.str(opStr(d, "s"))
	case "rune":
		runes := []rune("qé日\U0001F600́")
		d["s"] = string(runes[s.rng.Intn(len(runes))])
	case "obj":
		for _, c := range []string{"strv", "gov", "errv"} {
			if v, ok := d[c].(string); ok {
				d[c] = s.str(v)
			}
		}
	case "cell", "cellptr":
		s.item(opMap(d, "inner"))
	}
}

func (s *substitution) applyOp(op M) {
	if l, ok := op["items"].([]interface{}); ok {
		for _, d := range l {
			s.item(d.(map[string]interface{}))
		}
	}
	if d, ok := op["item"].(map[string]interface{}); ok {
		s.item(d)
	}
	if op["op"] == "measure" {
		parts := opList(op, "parts")
		for i, p := range parts {
			if ps := p.(string); ps != "\n" && ps != "" {
				parts[i] = s.str(ps)
			}
		}
	}
	if op["op"] == "htmlopts" {
		for _, k := range []string{"id", "class", "caption"} {
			if v, ok := op[k].(string); ok && v != "" {
				op[k] = s.str(v)
			}
		}
		if l, ok := op["genvals"].([]interface{}); ok {
			for i, v := range l {
				if vs := v.(string); vs != "" {
					l[i] = s.str(vs)
				}
			}
		}
	}
}
