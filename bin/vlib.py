#!/usr/bin/env python3
"""Orchestration library for the model-based checks (python3 stdlib only).

A check = (1) build the Go driver against /repo's working tree, (2) TLC model
check of the family's bounded spec (also writes one scenario per transition),
(3) more scenarios (seeded random generators, TLC -simulate), (4) the driver
executes every scenario on the real library and logs NDJSON, (5) TLC validates
the log against the specification (sharded), (6) mismatches are reproduced,
classified against known_findings.json, and reported; evidence is written.

Exit status: 0 held on everything explored; 1 violation (VIOLATION line
printed); 2 the machinery itself failed (never reported as a violation).
"""
import concurrent.futures
import hashlib
import json
import os
import re
import shutil
import subprocess
import sys
import time

VERIF = os.path.dirname(os.path.dirname(os.path.abspath(__file__)))
SPEC = os.path.join(VERIF, "spec")
HARNESS = os.path.join(VERIF, "harness")
OUT = os.path.join(VERIF, "out")
REPO = "/repo"
NCPU = os.cpu_count() or 4


class Infra(Exception):
    """The machinery failed (exit 2)."""


def log(*a):
    print(*a, flush=True)


def goenv():
    e = dict(os.environ)
    e.update(GOFLAGS="-mod=mod", GOPROXY="off", GOSUMDB="off", GOTOOLCHAIN="local")
    # the library's width measure depends on the process environment (an East Asian locale makes the
    # box-drawing glyphs two cells wide): the driver always runs in the C locale
    e.update(LANG="C", LC_ALL="C", LC_CTYPE="C")
    e.pop("RUNEWIDTH_EASTASIAN", None)
    return e


def run(cmd, cwd=None, env=None, timeout=None, check=True, capture=True):
    try:
        p = subprocess.run(cmd, cwd=cwd, env=env, timeout=timeout,
                           stdout=subprocess.PIPE if capture else None,
                           stderr=subprocess.STDOUT if capture else None)
        if capture:
            p.stdout = p.stdout.decode("utf-8", errors="replace")
    except subprocess.TimeoutExpired:
        raise Infra("timeout after %ss: %s" % (timeout, " ".join(cmd)))
    if check and p.returncode != 0:
        raise Infra("command failed (%d): %s\n%s" % (p.returncode, " ".join(cmd), (p.stdout or "")[-4000:]))
    return p


def build_driver(workdir, race=False):
    """Builds vdrive from the harness against /repo's current working tree."""
    gosum = os.path.join(HARNESS, "go.sum")
    want = open(os.path.join(REPO, "go.sum"), "rb").read()
    if not os.path.exists(gosum) or open(gosum, "rb").read() != want:
        tmp = "%s.%d.tmp" % (gosum, os.getpid())
        with open(tmp, "wb") as f:
            f.write(want)
        os.replace(tmp, gosum)   # (atomic: checks of several properties may run side by side)
    out = os.path.join(workdir, "vdrive-race" if race else "vdrive")
    cmd = ["go", "build", "-tags", "verif"] + (["-race"] if race else []) + ["-o", out, "./cmd/vdrive"]
    run(cmd, cwd=HARNESS, env=goenv(), timeout=600)
    return out


def tlc_env(extra_java=""):
    e = dict(os.environ)
    e["JAVA_TOOL_OPTIONS"] = ("-Dfile.encoding=UTF-8 -Xss256m " + extra_java).strip()
    return e


def copy_spec(d):
    os.makedirs(d, exist_ok=True)
    for f in os.listdir(SPEC):
        if f.endswith(".tla"):
            shutil.copyfile(os.path.join(SPEC, f), os.path.join(d, f))


def write_cfg(path, spec="Spec", constants=None, invariants=(), properties=(), view=None,
              action_constraints=(), constraints=(), deadlock=False, postcondition=None):
    lines = ["SPECIFICATION %s" % spec]
    if constants:
        lines.append("CONSTANTS")
        for k, v in constants.items():
            if type(v).__name__ == "Raw":
                v = str(v)
            elif isinstance(v, str):
                v = json.dumps(v)
            elif isinstance(v, bool):
                v = "TRUE" if v else "FALSE"
            lines.append("  %s = %s" % (k, v))
    if view:
        lines.append("VIEW %s" % view)
    for i in invariants:
        lines.append("INVARIANT %s" % i)
    for p in properties:
        lines.append("PROPERTY %s" % p)
    for a in action_constraints:
        lines.append("ACTION_CONSTRAINT %s" % a)
    for c in constraints:
        lines.append("CONSTRAINT %s" % c)
    if postcondition:
        lines.append("POSTCONDITION %s" % postcondition)
    lines.append("CHECK_DEADLOCK %s" % ("TRUE" if deadlock else "FALSE"))
    with open(path, "w") as f:
        f.write("\n".join(lines) + "\n")


STATS_RE = re.compile(r"(\d+) states generated, (\d+) distinct states found")


def run_tlc(d, module, workers=8, timeout=1800, extra=(), simulate=None, heap="12g"):
    """Runs TLC in directory d on module (cfg = module.cfg). Returns (generated, distinct, output)."""
    cmd = ["tlc", "-workers", str(workers), "-metadir", os.path.join(d, "meta-" + module)]
    if simulate:
        cmd += ["-simulate", simulate]
    cmd += list(extra) + [module + ".tla"]
    # (TLC unpacks its standard modules into java.io.tmpdir on every start and leaves them there: keep that inside
    # the run's own directory, which is removed afterwards, instead of littering /tmp)
    jtmp = os.path.join(d, "jtmp-" + module)
    os.makedirs(jtmp, exist_ok=True)
    p = run(cmd, cwd=d, env=tlc_env("-Xmx" + heap + " -Djava.io.tmpdir=" + jtmp), timeout=timeout, check=False)
    out = p.stdout or ""
    shutil.rmtree(os.path.join(d, "meta-" + module), ignore_errors=True)
    shutil.rmtree(jtmp, ignore_errors=True)
    m = None
    for m in STATS_RE.finditer(out):
        pass
    if p.returncode != 0 or "Error:" in out:
        if simulate and p.returncode == 0:
            pass
        else:
            heads = " | ".join(sorted(set(re.findall(r"Error: [^\n]*", out)))[:6])
            raise Infra("TLC failed on %s (exit %d) -- model-level failure or tool error, not a verdict on the code: %s\n%s"
                        % (module, p.returncode, heads, out[-6000:]))
    if m is None and not simulate:
        raise Infra("TLC printed no state statistics for %s:\n%s" % (module, out[-3000:]))
    gen, dist = (int(m.group(1)), int(m.group(2))) if m else (0, 0)
    return gen, dist, out


def unquote_gen(path):
    """Reads a CSVWrite/ToJson scenario file: each line is a TLA+ string literal holding JSON."""
    res = []
    with open(path) as f:
        for n, line in enumerate(f, 1):
            line = line.strip()
            if not line:
                continue
            try:
                s = json.loads(line)
                ops = json.loads(s) if isinstance(s, str) else s
            except Exception as e:
                raise Infra("corrupt generated scenario line %d of %s: %s" % (n, path, e))
            res.append(ops)
    return res


def scen_hash(ops):
    return hashlib.sha1(json.dumps(ops, sort_keys=True).encode()).hexdigest()


def write_scenarios(path, scens):
    """scens: list of (id, ops)."""
    with open(path, "w") as f:
        for sid, ops in scens:
            f.write(json.dumps({"id": sid, "ops": ops}) + "\n")


def drive(vdrive, scen_path, trace_path, facets, every=False, subst=0, pool="text", extra=(), timeout=1800):
    cmd = [vdrive, "-in", scen_path, "-out", trace_path, "-facets", facets]
    if every:
        cmd.append("-every")
    if subst:
        cmd += ["-subst", str(subst), "-pool", pool]
    cmd += list(extra)
    p = run(cmd, env=goenv(), timeout=timeout, check=False)
    if p.returncode != 0:
        raise Infra("driver failed (%d): %s" % (p.returncode, (p.stdout or "")[-3000:]))
    m = re.search(r"vdrive: (\{.*\})", p.stdout or "")
    return json.loads(m.group(1)) if m else {}


def shard_trace(trace_path, d, nshards):
    """Splits a trace at reset lines into <= nshards files of similar size."""
    size = os.path.getsize(trace_path)
    target = max(1, size // nshards)
    paths = []
    cur = None
    cur_size = 0
    nlines = 0
    with open(trace_path) as f:
        for line in f:
            # (a reset line; inside string values a quote is escaped, so this cannot match data)
            if '"op":"reset"' in line:
                if cur is None or cur_size >= target:
                    if cur:
                        cur.close()
                    p = os.path.join(d, "shard%d.ndjson" % len(paths))
                    paths.append(p)
                    cur = open(p, "w")
                    cur_size = 0
            if cur is None:
                raise Infra("trace does not start with a reset line")
            cur.write(line)
            cur_size += len(line)
            nlines += 1
    if cur:
        cur.close()
    return paths, nlines


def validate_shard(args):
    d, idx, shard, module, timeout = args
    sd = os.path.join(d, "tv%d" % idx)
    copy_spec(sd)
    mis = os.path.join(sd, "mis.ndjson")
    write_cfg(os.path.join(sd, module + ".cfg"), constants={"TraceFile": shard, "MisFile": mis})
    try:
        gen, dist, out = run_tlc(sd, module, workers=1, timeout=timeout, heap="3g")
    except Infra as e:
        return {"error": str(e)}
    recs = []
    done = None
    if os.path.exists(mis):
        with open(mis) as f:
            for line in f:
                line = line.strip()
                if not line:
                    continue
                r = json.loads(json.loads(line))
                if r.get("done"):
                    done = r
                else:
                    r["shard"] = shard
                    recs.append(r)
    nl = sum(1 for _ in open(shard))
    if not done or done.get("lines") != nl:
        return {"error": "trace validation did not consume all %d lines of %s (done=%r)\n%s" % (nl, shard, done, out[-3000:])}
    if done.get("mismatches") != len({(r.get("scen"), r.get("line")) for r in recs}):
        return {"error": "the validator counted %r mismatching lines but wrote records for %d (%s)"
                         % (done.get("mismatches"), len({(r.get("scen"), r.get("line")) for r in recs}), shard)}
    shutil.rmtree(sd, ignore_errors=True)
    cmp_ = done.get("compared") or {}
    return {"recs": recs, "lines": nl, "states": dist, "compared": cmp_ if isinstance(cmp_, dict) else {}}


# what the validator actually compared, summed over every validation of this process:
# facet -> number of comparisons; "#reset" scenarios begun; "#skipped" lines not judged (poisoned scenario)
COMPARED = {}
LAST_COMPARED = {}


def validate(trace_path, d, module="TabularTrace", nshards=None, timeout=1800):
    """Trace validation of a whole trace file, sharded over processes.
    Returns (mismatch records, lines validated)."""
    LAST_COMPARED.clear()
    size = os.path.getsize(trace_path)
    if nshards is None:
        # at least one shard per core for mid-sized traces, and never more than ~48 MB per shard (a TLC
        # process holds its whole shard in memory); shards run NCPU at a time
        nshards = max(min(NCPU, size // 200000 + 1), size // 48000000 + 1)
    nshards = max(1, nshards)
    single = nshards == 1
    if single:
        paths, nlines = [trace_path], sum(1 for _ in open(trace_path))
    else:
        paths, nlines = shard_trace(trace_path, d, nshards)
    recs = []
    total = 0
    with concurrent.futures.ThreadPoolExecutor(max_workers=min(len(paths), NCPU)) as ex:
        for r in ex.map(validate_shard, [(d, i, p, module, timeout) for i, p in enumerate(paths)]):
            if "error" in r:
                raise Infra(r["error"])
            recs += r["recs"]
            total += r["lines"]
            for k, v in r.get("compared", {}).items():
                COMPARED[k] = COMPARED.get(k, 0) + v
                LAST_COMPARED[k] = LAST_COMPARED.get(k, 0) + v
    if total != nlines:
        raise Infra("validated %d of %d trace lines" % (total, nlines))
    if not single:
        for p in paths:
            os.remove(p)
    return recs, nlines


def load_known():
    p = os.path.join(VERIF, "known_findings.json")
    if not os.path.exists(p):
        return []
    return json.load(open(p)).get("findings", [])


def evidence_dir():
    """/verif/evidence, unless VERIF_EVIDENCE_DIR says otherwise (bin/mutants.py sets it: a run against a patched
    tree must never overwrite the evidence of the unchanged one)."""
    return os.environ.get("VERIF_EVIDENCE_DIR") or os.path.join(VERIF, "evidence")


def repo_state():
    """HEAD and cleanliness of /repo's working tree, recorded in the evidence."""
    try:
        head = subprocess.run(["git", "-C", REPO, "log", "--format=%h", "-1"], stdout=subprocess.PIPE, timeout=30).stdout.decode().strip()
        dirty = subprocess.run(["git", "-C", REPO, "status", "--porcelain"], stdout=subprocess.PIPE, timeout=30).stdout.decode().strip()
        return {"repo_head": head, "repo_worktree_clean": dirty == ""}
    except Exception:
        return {"repo_head": "?", "repo_worktree_clean": False}


def write_evidence(prop, tier, seed, level, coverage, assumptions, wall, violations):
    os.makedirs(evidence_dir(), exist_ok=True)
    coverage = dict(coverage)
    coverage.update(repo_state())
    ev = {"property_id": prop, "tier": tier, "seed": seed, "level": level, "coverage": coverage,
          "assumptions": assumptions, "wall_s": round(wall, 2), "violations": violations}
    tmp = os.path.join(evidence_dir(), prop + ".json.tmp")
    with open(tmp, "w") as f:
        json.dump(ev, f, indent=1, ensure_ascii=True)
        f.write("\n")
    os.replace(tmp, os.path.join(evidence_dir(), prop + ".json"))
