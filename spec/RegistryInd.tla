---------------------------- MODULE RegistryInd ----------------------------
(***************************************************************************)
(* Unbounded-in-time safety of the registry's locking discipline, as an    *)
(* inductive invariant discharged by Apalache (Init => IndInv at length 0, *)
(* IndInv /\ Next => IndInv' at length 1).  This is the lock / body /      *)
(* unlock skeleton of Registry.tla with the registry content abstracted to *)
(* a version counter: what is proved is mutual exclusion and that the      *)
(* content changes only in a Body step of the lock holder.                 *)
(***************************************************************************)
EXTENDS Integers

CONSTANT
  \* @type: Set(Int);
  Procs

VARIABLES
  \* @type: Int;
  lock,
  \* @type: Int -> Str;
  pc,
  \* @type: Int;
  version,
  \* @type: Int;
  lastWriter

CInit == Procs = {1, 2, 3, 4}

Init == /\ lock = 0 /\ pc = [p \in Procs |-> "idle"] /\ version = 0 /\ lastWriter = 0

Lock(p) == /\ pc[p] = "idle" /\ lock = 0
           /\ lock' = p /\ pc' = [pc EXCEPT ![p] = "locked"] /\ UNCHANGED <<version, lastWriter>>
\* a body step may write (register) or only read (named / list)
Body(p) == /\ pc[p] = "locked" /\ lock = p
           /\ pc' = [pc EXCEPT ![p] = "done"]
           /\ \/ (version' = version + 1 /\ lastWriter' = p)
              \/ UNCHANGED <<version, lastWriter>>
           /\ UNCHANGED lock
Unlock(p) == /\ pc[p] = "done" /\ lock = p
             /\ lock' = 0 /\ pc' = [pc EXCEPT ![p] = "idle"] /\ UNCHANGED <<version, lastWriter>>

Next == \E p \in Procs : Lock(p) \/ Body(p) \/ Unlock(p)

TypeOK == /\ lock \in Procs \cup {0}
          /\ pc \in [Procs -> {"idle", "locked", "done"}]
          /\ version \in Nat /\ lastWriter \in Procs \cup {0}

MutualExclusion == \A p, q \in Procs : (pc[p] # "idle" /\ pc[q] # "idle") => p = q

IndInv == /\ TypeOK
          /\ \A p \in Procs : (pc[p] # "idle") <=> (lock = p)
          /\ MutualExclusion

IndInit == IndInv
=============================================================================
