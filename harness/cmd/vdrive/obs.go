package main

import (
	"fmt"

	"go.pennock.tech/tabular"
)

func b2i(b bool) int {
	if b {
		return 1
	}
	return 0
}

// observe fills obs with the requested facets. Facets that speak about "the
// table" are logged for every table of the world, as a list indexed by table id.
func (w *world) observe(obs M, facets map[string]bool, op M) {
	if facets["grid"] {
		var l []interface{}
		for i := range w.tables {
			l = append(l, w.obsGrid(i+1))
		}
		obs["grid"] = orEmpty(l)
		obs["drows"] = orEmpty(w.obsDetachedRows())
	}
	if facets["text"] {
		obs["text"] = orEmpty(w.obsText())
	}
	if facets["errs"] {
		obs["errs"] = w.obsErrs()
	}
	if facets["props"] {
		obs["props"] = w.obsProps()
	}
	w.observeMore(obs, facets, op)
}

func orEmpty(l []interface{}) []interface{} {
	if l == nil {
		return []interface{}{}
	}
	return l
}

// obsGrid: everything C02 talks about, through the public API only.
func (w *world) obsGrid(tid int) M {
	t := w.table(tid)
	nrows, ncols := t.NRows(), t.NColumns()
	g := M{"nrows": nrows, "ncols": ncols}
	hs := t.Headers()
	if hs == nil {
		g["hdrn"] = -1
	} else {
		g["hdrn"] = len(hs)
	}
	all := t.AllRows()
	rows := []interface{}{}
	cells := []interface{}{}
	for i, r := range all {
		rid, ok := w.rowOf[r]
		if !ok {
			rid = 0
		}
		n := -1
		if r.Cells() != nil {
			n = len(r.Cells())
		}
		loc := r.Location()
		rows = append(rows, []interface{}{rid, b2i(r.IsSeparator()), n, loc.Row, loc.Column})
		for j := range r.Cells() {
			cl := r.Cells()[j].Location()
			cells = append(cells, []interface{}{i + 1, j + 1, cl.Row, cl.Column})
		}
	}
	g["rows"] = rows
	g["cells"] = cells
	// CellAt over a frame one larger than the table.
	cellat := []interface{}{}
	for r := 0; r <= nrows+1; r++ {
		for c := 0; c <= ncols+1; c++ {
			cp, err := t.CellAt(tabular.CellLocation{Row: r, Column: c})
			ok, same, errok := 0, 0, 1
			if err == nil && cp != nil {
				ok = 1
				if r >= 1 && r <= len(all) && c >= 1 && c <= len(all[r-1].Cells()) && cp == &all[r-1].Cells()[c-1] {
					same = 1
				}
			} else {
				// the failure must be the documented no-such-cell error carrying the location
				if nsc, isNsc := err.(tabular.NoSuchCellError); !isNsc || nsc.Location.Row != r || nsc.Location.Column != c || cp != nil {
					errok = 0
				}
			}
			cellat = append(cellat, []interface{}{r, c, ok, same, errok})
		}
	}
	g["cellat"] = cellat
	cols := []interface{}{}
	for n := -1; n <= ncols+1; n++ {
		cols = append(cols, b2i(t.Column(n) != nil))
	}
	g["cols"] = cols
	// Scramble the slice handed out by AllRows; the table must not notice.
	scr := 1
	if len(all) > 0 {
		mess := t.AllRows()
		for i := range mess {
			mess[i] = nil
		}
		mess = mess[:0]
		_ = mess
		again := t.AllRows()
		if len(again) != len(all) || t.NRows() != nrows {
			scr = 0
		} else {
			for i := range again {
				if again[i] != all[i] {
					scr = 0
				}
			}
		}
	}
	g["scr"] = scr
	return g
}

func (w *world) attachedSet() map[*tabular.Row]bool {
	att := map[*tabular.Row]bool{}
	for _, t := range w.tables {
		for _, r := range t.AllRows() {
			att[r] = true
		}
	}
	return att
}

func (w *world) obsDetachedRows() []interface{} {
	att := w.attachedSet()
	var out []interface{}
	for i, r := range w.rows {
		if att[r] {
			continue
		}
		n := -1
		if r.Cells() != nil {
			n = len(r.Cells())
		}
		loc := r.Location()
		out = append(out, []interface{}{i + 1, b2i(r.IsSeparator()), n, loc.Row, loc.Column})
	}
	return out
}

// obsText: per cell [where..., text, empty, item-is-the-original, Height(), TerminalCellWidth(), len(Lines())] (C01, C18).
func (w *world) obsText() []interface{} {
	var out []interface{}
	for ti, t := range w.tables {
		hs := t.Headers()
		for j := range hs {
			c := &hs[j]
			same := 0
			if j < len(w.hdrItems[ti]) && sameItem(c.Item(), w.hdrItems[ti][j]) {
				same = 1
			}
			out = append(out, []interface{}{"h", ti + 1, j + 1, c.String(), b2i(c.Empty()), same, c.Height(), c.TerminalCellWidth(), len(c.Lines())})
		}
	}
	for ri, r := range w.rows {
		cs := r.Cells()
		for j := range cs {
			c := &cs[j]
			same := 0
			if j < len(w.rowItems[ri]) && sameItem(c.Item(), w.rowItems[ri][j]) {
				same = 1
			}
			out = append(out, []interface{}{"r", ri + 1, j + 1, c.String(), b2i(c.Empty()), same, c.Height(), c.TerminalCellWidth(), len(c.Lines())})
		}
	}
	return out
}

// obsErrs: error lists as lists of error ids; nil-ness of the list.
func (w *world) obsErrs() M {
	o := M{}
	var tl []interface{}
	for _, t := range w.tables {
		es := t.Errors()
		tl = append(tl, M{"ids": w.errIDs(es), "isnil": b2i(es == nil)})
	}
	o["tbl"] = orEmpty(tl)
	att := w.attachedSet()
	var rl []interface{}
	for i, r := range w.rows {
		if att[r] {
			continue
		}
		es := r.Errors()
		rl = append(rl, M{"r": i + 1, "ids": w.errIDs(es), "isnil": b2i(es == nil)})
	}
	o["rows"] = orEmpty(rl)
	var el []interface{}
	for _, ec := range w.ecs {
		var es []error
		p := ""
		func() {
			defer func() {
				if r := recover(); r != nil {
					mustBeLibrary(r, "ErrorContainer.Errors")
					p = fmt.Sprint(r)
				}
			}()
			es = ec.Errors()
		}()
		el = append(el, M{"ids": w.errIDs(es), "isnil": b2i(es == nil), "panic": p})
	}
	o["ecs"] = orEmpty(el)
	return o
}
