package main

import (
	"bytes"
	"errors"
	"fmt"
	"io"
)

// scriptedWriter fails according to a script:
//
//	from:    every Write call with index >= k fails
//	only:    only call k fails; later calls succeed again
//	partial: call k accepts j bytes (j < len) and returns an error; later calls succeed
type scriptedWriter struct {
	mode     string
	k        int
	calls    int
	accepted []byte
}

var errScripted = errors.New("scripted write failure")

func (s *scriptedWriter) Write(p []byte) (int, error) {
	s.calls++
	fail := false
	switch s.mode {
	case "from":
		fail = s.calls >= s.k
	case "only", "partial":
		fail = s.calls == s.k
	}
	if !fail {
		s.accepted = append(s.accepted, p...)
		return len(p), nil
	}
	if s.mode == "partial" {
		j := len(p) / 2
		s.accepted = append(s.accepted, p[:j]...)
		return j, errScripted
	}
	return 0, errScripted
}

type countingWriter struct {
	calls int
	b     []byte
}

func (c *countingWriter) Write(p []byte) (int, error) {
	c.calls++
	c.b = append(c.b, p...)
	return len(p), nil
}

// faultSweep (C15): one fault-free run gives the number of Write calls m and the
// reference bytes; then every k in 1..m x {from, only, partial} is executed under
// recover. Per run: [k, mode, errNonNil, panicked, acceptedIsPrefix].
func (w *world) faultSweep(op M) M {
	tg := w.target(op)
	run := func(wr io.Writer) (err error, panicked string) {
		defer func() {
			if r := recover(); r != nil {
				mustBeLibrary(r, "faultsweep")
				panicked = fmt.Sprint(r)
			}
		}()
		return tg.renderTo(wr), ""
	}
	cw := &countingWriter{}
	err0, p0 := run(cw)
	res := M{"fmt": tg.kind, "m": cw.calls, "refok": b2i(err0 == nil && p0 == ""), "refpanic": p0}
	runs := []interface{}{}
	for k := 1; k <= cw.calls; k++ {
		for _, mode := range []string{"from", "only", "partial"} {
			sw := &scriptedWriter{mode: mode, k: k}
			err, p := run(sw)
			runs = append(runs, []interface{}{k, mode, b2i(err != nil), b2i(p != ""), b2i(bytes.HasPrefix(cw.b, sw.accepted))})
		}
	}
	faultRuns.Add(int64(len(runs)))
	res["runs"] = runs
	return res
}
